"""Virtual inlining of NEW crate-private synchronous helper functions.

The rules are anchored on the functions that exist on the reviewed (pinned) tree (rules/known_fns.json). When a refactoring
moves a block of one of those functions into a new private helper, the guard stays in the caller and the action moves to the
helper (or the other way round): intraprocedural rules would lose sight of one of them. Such a helper - not in the known list,
not public, not async, not recursive, not a trait method, every call to it resolved - is spliced into each of its call sites
on the fact level (locals and blocks renumbered, arguments bound by assignments, `return` -> assignment of the result + goto),
and removed as a separate body. Inlining is semantics-preserving, so nothing a rule decides on the inlined program is wrong
for the real one; functions that existed on the pinned tree are never inlined (they stay anchors)."""
import copy

from .mir import strip_generics


def _shift(obj, loff, boff):
    """renumber locals (+loff) and block ids (+boff) inside a copied block"""
    if isinstance(obj, dict):
        if "l" in obj and "p" in obj and isinstance(obj.get("p"), list):      # a place
            obj["l"] += loff
            for pr in obj["p"]:
                if isinstance(pr, list) and pr and pr[0] == "i" and len(pr) > 1 and isinstance(pr[1], int):
                    pr[1] += loff
            return
        k = obj.get("k")
        if k in ("live", "dead") and "l" in obj and isinstance(obj["l"], int):
            obj["l"] += loff
            return
        for key, v in obj.items():
            if key in ("t", "else") and isinstance(v, int):
                obj[key] = v + boff
            elif key == "arms" and isinstance(v, list):
                obj[key] = [[a[0], a[1] + boff] for a in v]
            elif key == "id" and isinstance(v, int):
                obj[key] = v + boff
            else:
                _shift(v, loff, boff)
    elif isinstance(obj, list):
        for x in obj:
            _shift(x, loff, boff)


def _relabel(obj, frm, to):
    """rename local `frm` to `to` everywhere"""
    if isinstance(obj, dict):
        if "l" in obj and "p" in obj and isinstance(obj.get("p"), list):
            if obj["l"] == frm:
                obj["l"] = to
            for pr in obj["p"]:
                if isinstance(pr, list) and pr and pr[0] == "i" and len(pr) > 1 and pr[1] == frm:
                    pr[1] = to
            return
        if obj.get("k") in ("live", "dead") and obj.get("l") == frm:
            obj["l"] = to
            return
        for v in obj.values():
            _relabel(v, frm, to)
    elif isinstance(obj, list):
        for x in obj:
            _relabel(x, frm, to)


def _callee_of(term):
    return strip_generics(term["resolved"]) if term.get("resolved") and term.get("ikind") == "Item" else strip_generics(term.get("callee", ""))


def candidates(recs_by_def, known):
    out = {}
    for d, r in recs_by_def.items():
        if d in known or r.get("kind") not in ("Fn", "AssocFn") or r.get("vis") == "Public" or r.get("asyncness") or r.get("macro_generated"):
            continue
        if d.startswith("<") or "::{closure" in d or len(r["blocks"]) > 120:
            continue
        if any(b["term"]["k"] == "yield" for b in r["blocks"]):
            continue
        # not recursive
        if any(b["term"]["k"] == "call" and _callee_of(b["term"]) == d for b in r["blocks"]):
            continue
        out[d] = r
    return out


def inline_into(caller, callee_def, callee):
    """splice every call to callee_def in `caller` (a rec dict, modified in place). returns number of sites inlined"""
    n = 0
    i = 0
    while i < len(caller["blocks"]):
        blk = caller["blocks"][i]
        t = blk["term"]
        if t["k"] == "call" and _callee_of(t) == callee_def and len(t["args"]) == callee.get("argc", len(t["args"])):
            loff = len(caller["locals"])
            boff = len(caller["blocks"])
            caller["locals"].extend(copy.deepcopy(callee["locals"]))
            new_blocks = copy.deepcopy(callee["blocks"])
            _shift(new_blocks, loff, boff)
            sp = t.get("sp", "")
            # the callee's return place becomes the call's destination itself when that is a plain local (no copy in between:
            # `return helper(..)` keeps assigning the caller's own return place)
            direct = not t["dst"]["p"]
            if direct:
                _relabel(new_blocks, loff, t["dst"]["l"])
            for nb in new_blocks:
                if nb["term"]["k"] == "return":
                    if t.get("t") is not None:
                        if not direct:
                            nb["stmts"].append({"k": "assign", "dst": copy.deepcopy(t["dst"]), "rv": {"k": "use", "a": {"m": {"l": loff, "p": []}}}, "sp": sp, "exp": False})
                        nb["term"] = {"k": "goto", "t": t["t"]}
                    else:
                        nb["term"] = {"k": "unreachable"}
            for ai, a in enumerate(t["args"]):
                blk["stmts"].append({"k": "assign", "dst": {"l": loff + 1 + ai, "p": []}, "rv": {"k": "use", "a": copy.deepcopy(a)}, "sp": sp, "exp": False})
            blk["term"] = {"k": "goto", "t": boff}
            caller["blocks"].extend(new_blocks)
            n += 1
        i += 1
    return n


def inline_new_helpers(recs, known, rounds=4):
    """recs: list of fact records. Returns (new list of records, [(helper, callers..)])"""
    bodies = {strip_generics(r["def"]): r for r in recs if r.get("rec") == "body"}
    done = []
    for _ in range(rounds):
        cands = candidates(bodies, known)
        if not cands:
            break
        progressed = False
        for d, r in sorted(cands.items()):
            # a helper that itself still calls another candidate is handled in a later round
            if any(b["term"]["k"] == "call" and _callee_of(b["term"]) in cands and _callee_of(b["term"]) != d for b in r["blocks"]):
                continue
            callers = [c for cd, c in bodies.items() if cd != d and any(b["term"]["k"] == "call" and _callee_of(b["term"]) == d for b in c["blocks"])]
            # used as a value (fn item passed around) -> leave it alone
            used_as_value = False
            for c in bodies.values():
                if d in str(c.get("fn_items", "")):
                    used_as_value = True
            if not callers or used_as_value:
                continue
            where = []
            for c in callers:
                if "_inlined_copy" not in c:
                    c2 = copy.deepcopy(c)
                    c2["_inlined_copy"] = True
                    bodies[strip_generics(c["def"])] = c2
                    c = c2
                k = inline_into(c, d, r)
                if k:
                    where.append((strip_generics(c["def"]), k))
            remaining = any(b["term"]["k"] == "call" and _callee_of(b["term"]) == d for c in bodies.values() for b in c["blocks"])
            if where and not remaining:
                del bodies[d]
                done.append((d, where))
                progressed = True
        if not progressed:
            break
    out = [r for r in recs if r.get("rec") != "body"] + list(bodies.values())
    return out, done
