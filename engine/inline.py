"""Virtual inlining of NEW crate-private synchronous helper functions.

The rules are anchored on the functions that exist on the reviewed (pinned) tree (rules/known_fns.json). When a refactoring
moves a block of one of those functions into a new private helper, the guard stays in the caller and the action moves to the
helper (or the other way round): intraprocedural rules would lose sight of one of them. Such a helper - not in the known list,
not public, not async, not recursive, not a trait method, every call to it resolved - is spliced into each of its call sites
on the fact level (locals and blocks renumbered, arguments bound by assignments, `return` -> assignment of the result + goto),
and removed as a separate body. Inlining is semantics-preserving, so nothing a rule decides on the inlined program is wrong
for the real one; functions that existed on the pinned tree are never inlined (they stay anchors)."""
import copy

from .mir import strip_generics


def _shift(obj, loff, boff):
    """renumber locals (+loff) and block ids (+boff) inside a copied block"""
    if isinstance(obj, dict):
        if "l" in obj and "p" in obj and isinstance(obj.get("p"), list):      # a place
            obj["l"] += loff
            for pr in obj["p"]:
                if isinstance(pr, list) and pr and pr[0] == "i" and len(pr) > 1 and isinstance(pr[1], int):
                    pr[1] += loff
            return
        k = obj.get("k")
        if k in ("live", "dead") and "l" in obj and isinstance(obj["l"], int):
            obj["l"] += loff
            return
        for key, v in obj.items():
            if key in ("t", "else") and isinstance(v, int):
                obj[key] = v + boff
            elif key == "arms" and isinstance(v, list):
                obj[key] = [[a[0], a[1] + boff] for a in v]
            elif key == "id" and isinstance(v, int):
                obj[key] = v + boff
            else:
                _shift(v, loff, boff)
    elif isinstance(obj, list):
        for x in obj:
            _shift(x, loff, boff)


def _relabel(obj, frm, to):
    """rename local `frm` to `to` everywhere"""
    if isinstance(obj, dict):
        if "l" in obj and "p" in obj and isinstance(obj.get("p"), list):
            if obj["l"] == frm:
                obj["l"] = to
            for pr in obj["p"]:
                if isinstance(pr, list) and pr and pr[0] == "i" and len(pr) > 1 and pr[1] == frm:
                    pr[1] = to
            return
        if obj.get("k") in ("live", "dead") and obj.get("l") == frm:
            obj["l"] = to
            return
        for v in obj.values():
            _relabel(v, frm, to)
    elif isinstance(obj, list):
        for x in obj:
            _relabel(x, frm, to)


def _callee_of(term):
    return strip_generics(term["resolved"]) if term.get("resolved") and term.get("ikind") == "Item" else strip_generics(term.get("callee", ""))


def candidates(recs_by_def, known):
    out = {}
    for d, r in recs_by_def.items():
        if d in known or r.get("kind") not in ("Fn", "AssocFn") or r.get("vis") == "Public" or r.get("asyncness") or r.get("macro_generated"):
            continue
        if d.startswith("<") or "::{closure" in d or len(r["blocks"]) > 120:
            continue
        if any(b["term"]["k"] == "yield" for b in r["blocks"]):
            continue
        # not recursive
        if any(b["term"]["k"] == "call" and _callee_of(b["term"]) == d for b in r["blocks"]):
            continue
        out[d] = r
    return out


def inline_into(caller, callee_def, callee, bodies=None):
    """splice every call to callee_def in `caller` (a rec dict, modified in place). returns number of sites inlined"""
    n = 0
    i = 0
    while i < len(caller["blocks"]):
        blk = caller["blocks"][i]
        t = blk["term"]
        if t["k"] == "call" and _callee_of(t) == callee_def and len(t["args"]) == callee.get("argc", len(t["args"])):
            loff = len(caller["locals"])
            boff = len(caller["blocks"])
            caller["locals"].extend(copy.deepcopy(callee["locals"]))
            new_blocks = copy.deepcopy(callee["blocks"])
            _shift(new_blocks, loff, boff)
            sp = t.get("sp", "")
            # the callee's return place becomes the call's destination itself when that is a plain local (no copy in between:
            # `return helper(..)` keeps assigning the caller's own return place)
            direct = not t["dst"]["p"]
            if direct:
                _relabel(new_blocks, loff, t["dst"]["l"])
            for nb in new_blocks:
                if nb["term"]["k"] == "return":
                    if t.get("t") is not None:
                        if not direct:
                            nb["stmts"].append({"k": "assign", "dst": copy.deepcopy(t["dst"]), "rv": {"k": "use", "a": {"m": {"l": loff, "p": []}}}, "sp": sp, "exp": False})
                        nb["term"] = {"k": "goto", "t": t["t"]}
                    else:
                        nb["term"] = {"k": "unreachable"}
            for ai, a in enumerate(t["args"]):
                blk["stmts"].append({"k": "assign", "dst": {"l": loff + 1 + ai, "p": []}, "rv": {"k": "use", "a": copy.deepcopy(a)}, "sp": sp, "exp": False})
            blk["term"] = {"k": "goto", "t": boff}
            if bodies is not None:
                rehome_closures(bodies, callee["def"], caller, new_blocks)
            caller["blocks"].extend(new_blocks)
            n += 1
        i += 1
    return n


_REHOME = [0]


def _replace_prefix(obj, old, new):
    """rewrite def-path strings starting with `old` (closure definitions of an inlined helper) to start with `new`"""
    if isinstance(obj, dict):
        for k, v in list(obj.items()):
            if isinstance(v, str):
                if v.startswith(old):
                    obj[k] = new + v[len(old):]
                elif old in v and k in ("callee_args",):
                    obj[k] = v.replace(old, new)
            else:
                _replace_prefix(v, old, new)
    elif isinstance(obj, list):
        for i, v in enumerate(obj):
            if isinstance(v, str):
                if v.startswith(old):
                    obj[i] = new + v[len(old):]
            else:
                _replace_prefix(v, old, new)


def rehome_closures(bodies, helper_raw, caller, new_blocks):
    """closures defined inside an inlined helper become closures of the caller (copied, so that each caller has its own):
    `helper::{closure#k}..` -> `caller::{closure#9nnk}..`; references inside the spliced blocks are rewritten"""
    old = helper_raw + "::{closure#"
    nested = [(d, r) for d, r in bodies.items() if r["def"].startswith(old)]
    if not nested:
        return
    _REHOME[0] += 1
    new = caller["def"] + "::{closure#9%02d" % _REHOME[0]
    _replace_prefix(new_blocks, old, new)
    for d, r in nested:
        c = copy.deepcopy(r)
        _replace_prefix(c, old, new)
        c["def"] = new + r["def"][len(old):]
        if c.get("parent", "").startswith(helper_raw):
            c["parent"] = caller["def"] if c["parent"] == helper_raw else new + c["parent"][len(old):] if c["parent"].startswith(old) else c["parent"]
        if c.get("root", "").startswith(helper_raw):
            c["root"] = caller.get("root", caller["def"])
        c["_rehomed_from"] = r["def"]
        bodies[strip_generics(c["def"])] = c


def _bind_env(obj, env_local, env):
    """places rooted at the coroutine's environment local with a leading capture projection -> the bound capture local"""
    if isinstance(obj, dict):
        if "l" in obj and "p" in obj and isinstance(obj.get("p"), list):
            if obj["l"] == env_local and obj["p"] and isinstance(obj["p"][0], list) and obj["p"][0][0] == "f" and obj["p"][0][1] in env:
                obj["l"] = env[obj["p"][0][1]]
                obj["p"] = obj["p"][1:]
            return
        for v in obj.values():
            _bind_env(v, env_local, env)
    elif isinstance(obj, list):
        for x in obj:
            _bind_env(x, env_local, env)


def inline_async_into(caller, fdef, gdef, g, bodies=None):
    """`helper(args).await` inside `caller`: the creation call binds the coroutine's captures, the poll call is replaced by the
    coroutine body (result wrapped in Poll::Ready). Creation and poll sites are paired in block order. returns #sites or 0"""
    creates = [b for b in caller["blocks"] if b["term"]["k"] == "call" and _callee_of(b["term"]) == fdef]
    polls = [b for b in caller["blocks"] if b["term"]["k"] == "call" and _callee_of(b["term"]) == gdef]
    caps = g.get("captures", [])
    if not creates or len(creates) != len(polls) or any(len(b["term"]["args"]) != len(caps) for b in creates):
        return 0
    for cb, pb in zip(creates, polls):
        ct, pt = cb["term"], pb["term"]
        env = {}
        for k, nm in enumerate(caps):
            env[nm] = len(caller["locals"])
            caller["locals"].append({"ty": "?", "name": nm, "user": True})
            cb["stmts"].append({"k": "assign", "dst": {"l": env[nm], "p": []}, "rv": {"k": "use", "a": copy.deepcopy(ct["args"][k])}, "sp": ct.get("sp", ""), "exp": False})
        cb["term"] = {"k": "goto", "t": ct["t"]} if ct.get("t") is not None else {"k": "unreachable"}
        loff = len(caller["locals"])
        boff = len(caller["blocks"])
        caller["locals"].extend(copy.deepcopy(g["locals"]))
        new_blocks = copy.deepcopy(g["blocks"])
        _shift(new_blocks, loff, boff)
        _bind_env(new_blocks, loff + 1, env)
        sp = pt.get("sp", "")
        for nb in new_blocks:
            if nb["term"]["k"] == "return":
                if pt.get("t") is not None:
                    nb["stmts"].append({"k": "assign", "dst": copy.deepcopy(pt["dst"]),
                                        "rv": {"k": "agg", "ak": "adt", "adt": "core::task::poll::Poll", "variant": "Ready", "is_enum": True, "fields": ["0"], "ops": [{"m": {"l": loff, "p": []}}]},
                                        "sp": sp, "exp": True})
                    nb["term"] = {"k": "goto", "t": pt["t"]}
                else:
                    nb["term"] = {"k": "unreachable"}
        if len(pt["args"]) > 1:
            pb["stmts"].append({"k": "assign", "dst": {"l": loff + 2, "p": []}, "rv": {"k": "use", "a": copy.deepcopy(pt["args"][1])}, "sp": sp, "exp": True})
        pb["term"] = {"k": "goto", "t": boff}
        if bodies is not None:
            rehome_closures(bodies, g["def"], caller, new_blocks)
        caller["blocks"].extend(new_blocks)
    return len(creates)


def inline_new_async_helpers(bodies, known, done):
    progressed = False
    for d, r in sorted(list(bodies.items())):
        if d in known or r.get("kind") not in ("Fn", "AssocFn") or r.get("vis") == "Public" or not r.get("asyncness") or r.get("macro_generated") or d.startswith("<"):
            continue
        gdef = d + "::{closure#0}"
        g = bodies.get(gdef)
        if g is None or not g.get("coroutine") or len(g["blocks"]) > 1500:
            continue
        # not recursive
        if any(b["term"]["k"] == "call" and _callee_of(b["term"]) in (d, gdef) for b in g["blocks"]):
            continue
        callers = [cd for cd, c in bodies.items() if cd not in (d, gdef) and any(b["term"]["k"] == "call" and _callee_of(b["term"]) == d for b in c["blocks"])]
        if not callers:
            continue
        where = []
        for cd in callers:
            c = bodies[cd]
            if "_inlined_copy" not in c:
                c = copy.deepcopy(c)
                c["_inlined_copy"] = True
            k = inline_async_into(c, d, gdef, g, bodies)
            if k:
                bodies[cd] = c
                where.append((cd, k))
        remaining = any(b["term"]["k"] == "call" and _callee_of(b["term"]) in (d, gdef) for cd, c in bodies.items() if cd not in (d, gdef) for b in c["blocks"])
        if where and not remaining:
            del bodies[d]
            for nd in [x for x in bodies if x == gdef or x.startswith(gdef + "::{closure")]:
                del bodies[nd]
            done.append((d + " (async)", where))
            progressed = True
    return progressed


def inline_new_helpers(recs, known, rounds=4):
    """recs: list of fact records. Returns (new list of records, [(helper, callers..)])"""
    # derive-generated impls live in anonymous consts (`module::_::<impl Tr for X>::f`); strip_generics would make them collide: key them raw
    bodies = {(r["def"] if "::_::" in r["def"] else strip_generics(r["def"])): r for r in recs if r.get("rec") == "body"}
    done = []
    for _ in range(rounds):
        cands = candidates(bodies, known)
        progressed = inline_new_async_helpers(bodies, known, done)
        if not cands and not progressed:
            break
        for d, r in sorted(cands.items()):
            # a helper that itself still calls another candidate is handled in a later round
            if any(b["term"]["k"] == "call" and _callee_of(b["term"]) in cands and _callee_of(b["term"]) != d for b in r["blocks"]):
                continue
            callers = [c for cd, c in bodies.items() if cd != d and any(b["term"]["k"] == "call" and _callee_of(b["term"]) == d for b in c["blocks"])]
            # used as a value (fn item passed around) -> leave it alone
            used_as_value = False
            for c in bodies.values():
                if d in str(c.get("fn_items", "")):
                    used_as_value = True
            if not callers or used_as_value:
                continue
            where = []
            for c in callers:
                if "_inlined_copy" not in c:
                    c2 = copy.deepcopy(c)
                    c2["_inlined_copy"] = True
                    bodies[strip_generics(c["def"])] = c2
                    c = c2
                k = inline_into(c, d, r, bodies)
                if k:
                    where.append((strip_generics(c["def"]), k))
            remaining = any(b["term"]["k"] == "call" and _callee_of(b["term"]) == d for c in bodies.values() for b in c["blocks"])
            if where and not remaining:
                del bodies[d]
                for nd in [x for x in bodies if x.startswith(d + "::{closure")]:
                    del bodies[nd]
                done.append((d, where))
                progressed = True
        if not progressed:
            break
    out = [r for r in recs if r.get("rec") != "body"] + list(bodies.values())
    return out, done
