"""New types that nothing uses: leave them out of the analysis.

A purely additive commit may bring a new type next to the reviewed ones (a further sampling strategy, a helper container) that is
not wired in anywhere yet. Rules that enumerate the implementations of a trait, and the over-approximate trait fan-out of the call
graph, would otherwise treat its methods as reachable and demand a review of code that cannot run. A type T that is NEW (not in
rules/known_items.json) is dropped from the fact base - its ADT record, its impl records and the bodies of its impls - when no body
outside T's own impls (and outside the impls of other dropped types) mentions T at all: neither constructs it, nor names it in a
type, nor calls or references one of its functions. The test is made on the library AND on the binaries (`bins` facts, extracted
only when there is a candidate), because the binaries are where samplers / disseminators are wired together.

A value of a type that no code mentions cannot exist at run time, so nothing reachable is removed. As soon as the type is used
anywhere (even only constructed), it is analysed like everything else and its panic sites etc. need review.
"""
import json

from .mir import strip_generics


def _own(def_path, t):
    d = def_path
    return d.startswith(t + "::") or d.startswith("<" + t + " as ") or d.startswith("<" + t + "<") or d.startswith(t + "<")


def _mentions(rec_text, t):
    i = rec_text.find(t)
    while i >= 0:
        after = rec_text[i + len(t):i + len(t) + 1]
        if not (after.isalnum() or after == "_"):
            return True
        i = rec_text.find(t, i + 1)
    return False


def prune(recs, known, other_cfg_recs=None):
    """-> (records, [dropped type paths]); other_cfg_recs: callable returning lists of records of the other configurations"""
    kad = known.get("adts", {})
    crates = set(r["crate"] for r in recs if r.get("rec") == "crate")
    new = [r["def"] for r in recs if r.get("rec") == "adt" and r["def"] not in kad and any(r["def"].startswith(c + "::") for c in crates)
           and "::_::" not in r["def"] and "{closure" not in r["def"]]
    if not new:
        return recs, []

    def dead_in(rs, cands):
        texts = None
        dead = set(cands)
        changed = True
        while changed:
            changed = False
            if texts is None:
                texts = []
                for r in rs:
                    if r.get("rec") == "body":
                        texts.append((strip_generics(r["def"]), json.dumps(r)))
                    elif r.get("rec") == "adt":
                        texts.append((r["def"] + "::", json.dumps(r)))     # fields of other types naming T
            for t in sorted(dead):
                used = False
                for d, tx in texts:
                    if _own(d, t) or any(_own(d, o) for o in dead if o != t):
                        continue
                    if _mentions(tx, t):
                        used = True
                        break
                if used:
                    dead.discard(t)
                    changed = True
        return dead
    dead = dead_in(recs, new)
    if dead and other_cfg_recs is not None:
        for rs in other_cfg_recs():
            dead = dead_in(rs, dead)
            if not dead:
                break
    if not dead:
        return recs, []
    out = []
    for r in recs:
        k = r.get("rec")
        if k == "adt" and r["def"] in dead:
            continue
        if k == "body" and any(_own(strip_generics(r["def"]), t) for t in dead):
            continue
        if k == "impl" and (r.get("self_adt") in dead or any(_own(strip_generics(r.get("def", "")), t) for t in dead)):
            continue
        if k == "const" and any(_own(strip_generics(r["def"]), t) for t in dead):
            continue
        out.append(r)
    return out, sorted(dead)
