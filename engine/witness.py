"""Runs the compile_fail witnesses (rustdoc doctests of /verif/witness, which path-depends on /repo) with the nightly
toolchain so that error codes are honoured. Nothing of alpenglow is executed: the twins are `fn` definitions only."""
import os
import re
import shutil
import subprocess

from . import facts

WDIR = os.path.join(facts.VERIF, "witness")


def run_witness():
    repo = os.environ.get("AGL_REPO", "/repo")
    if os.path.realpath(repo) != "/repo":
        return [("skipped (scratch repo)", True, "witness crate is pinned to /repo")]
    lock = os.path.join(repo, "Cargo.lock")
    if os.path.exists(lock):
        shutil.copy2(lock, os.path.join(WDIR, "Cargo.lock"))
    env = dict(os.environ, CARGO_TARGET_DIR=os.path.join(facts.SCRATCH, "target-witness"), CARGO_NET_OFFLINE="true")
    env.pop("RUSTC_WORKSPACE_WRAPPER", None)
    env.pop("RUSTFLAGS", None)
    r = subprocess.run(["cargo", "+nightly", "test", "--doc", "--offline", "--manifest-path", os.path.join(WDIR, "Cargo.toml")],
                       env=env, stdout=subprocess.PIPE, stderr=subprocess.STDOUT, text=True, cwd=WDIR)
    out = []
    for m in re.finditer(r"^test src/lib\.rs - (\w+) \(line \d+\)( - compile fail)? \.\.\. (\w+)", r.stdout, re.M):
        name, cf, verdict = m.group(1), bool(m.group(2)), m.group(3)
        expect_cf = name.endswith("Fails")
        out.append((name, verdict == "ok" and cf == expect_cf, "compile_fail=%s verdict=%s" % (cf, verdict)))
    if not out:
        raise facts.CheckerBroken("witness doctests did not run:\n" + r.stdout[-2000:])
    return out


def expect(names, results):
    """[(name, ok, detail)] restricted to `names`; a missing witness is a failure"""
    got = {n: (ok, d) for n, ok, d in results}
    return [(n,) + got.get(n, (False, "witness missing")) for n in names]
