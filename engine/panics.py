"""Panic-site enumeration over MIR bodies (P8: effect 'may panic here')."""
import re

from . import mir

UNWRAPS = ("::unwrap", "::expect", "::unwrap_err", "::expect_err", "::unwrap_unchecked")
UNWRAP_OWNERS = ("core::option::Option", "core::result::Result")

PANICKY_METHODS = (
    "core::slice::<impl [T]>::split_at", "core::slice::<impl [T]>::split_at_mut", "core::slice::<impl [T]>::copy_from_slice",
    "core::slice::<impl [T]>::clone_from_slice", "core::slice::<impl [T]>::chunks", "core::slice::<impl [T]>::chunks_exact",
    "core::slice::<impl [T]>::chunks_mut", "core::slice::<impl [T]>::chunks_exact_mut", "core::slice::<impl [T]>::windows",
    "core::slice::<impl [T]>::swap", "core::slice::<impl [T]>::rotate_left", "core::slice::<impl [T]>::rotate_right",
    "core::slice::<impl [T]>::split_first_chunk", "core::slice::<impl [T]>::as_chunks",
    "alloc::vec::Vec::remove", "alloc::vec::Vec::insert", "alloc::vec::Vec::swap_remove", "alloc::vec::Vec::drain", "alloc::vec::Vec::split_off",
    "alloc::vec::Vec::truncate_front", "alloc::collections::vec_deque::VecDeque::remove", "alloc::collections::vec_deque::VecDeque::swap",
    "core::cell::RefCell::borrow_mut", "core::cell::RefCell::borrow",
    "core::array::<impl [T; N]>::each_ref",
    "core::iter::traits::iterator::Iterator::step_by",
    "core::time::Duration::from_secs_f64", "core::time::Duration::from_secs_f32",
    "core::num::<impl usize>::div_ceil", "core::num::<impl u64>::div_ceil", "core::num::<impl u32>::ilog2", "core::num::<impl u64>::ilog2", "core::num::<impl usize>::ilog2",
    "core::num::<impl usize>::next_power_of_two",
)
PANICKY_METHODS = tuple(sorted(set(PANICKY_METHODS) | set(mir.strip_generics(x) for x in PANICKY_METHODS)))
PANICKY_OPS = ("core::ops::arith::Sub::sub", "core::ops::arith::Add::add", "core::ops::arith::Mul::mul", "core::ops::arith::AddAssign::add_assign",
               "core::ops::arith::SubAssign::sub_assign", "core::ops::arith::Div::div", "core::ops::arith::Rem::rem")

INDEXABLE = ("alloc::vec::Vec<", "[", "alloc::collections::vec_deque::VecDeque<", "alloc::collections::btree::map::BTreeMap<",
             "std::collections::hash::map::HashMap<", "smallvec::SmallVec<", "bitvec::", "alloc::string::String", "str", "&[", "&mut [")


def _lits(term):
    out = []
    for t in mir.walk(term):
        if isinstance(t, tuple) and t and t[0] == "const" and isinstance(t[2], str) and t[1].startswith("&") and "str" in t[1]:
            out.append(t[2])
    return out


def _clean_lit(s):
    s = s.strip()
    if s.startswith("const "):
        s = s[6:]
    return s.strip('"')


class PanicSite:
    __slots__ = ("body", "bb", "kind", "what", "msg", "span", "exp", "term", "ordinal", "cond")

    def __init__(self, body, bb, kind, what, msg, span, exp, term=None):
        self.body = body
        self.bb = bb
        self.kind = kind      # 'panic' | 'unwrap' | 'index' | 'assert' | 'method' | 'arith'
        self.what = what      # callee short / assert kind
        self.msg = msg
        self.span = span
        self.exp = exp
        self.term = term
        self.ordinal = 0
        self.cond = None

    def key(self, fshort):
        return "%s|%s|%s|%d" % (fshort(self.body.defpath), self.kind, self.what, self.ordinal)

    def __repr__(self):
        return "<panic %s %s %r @%s>" % (self.kind, self.what, self.msg, self.span)


def sites(body, prog=None, include_overflow=True):
    out = []
    for b in body.blocks:
        i = b["id"]
        if i not in body.reach():
            continue
        t = b["term"]
        k = t["k"]
        sp = t.get("sp", "")
        exp = t.get("exp", False)
        if k == "call":
            callee = mir.strip_generics(t.get("callee", "<indirect>"))
            resolved = mir.strip_generics(t["resolved"]) if "resolved" in t else callee
            ct = body.call_term(i, t)
            if t["t"] is None:
                # diverging call
                lits = [_clean_lit(x) for x in _lits(ct)]
                msg = lits[0] if lits else ""
                what = mir.short(callee)
                if callee.startswith("core::panicking::"):
                    # panic!(..) / assert!(c) / assert!(c, "msg") / assert_eq!(a, b) / unreachable!(..) lower to different entry points of
                    # core::panicking; which one depends only on the spelling of the message
                    what = "panicking::panic"
                out.append(PanicSite(body, i, "panic", what, msg, sp, exp, ct))
                continue
            last = callee.rsplit("::", 1)[-1]
            if any(callee.endswith(u) for u in UNWRAPS) and callee.startswith(UNWRAP_OWNERS):
                lits = [_clean_lit(x) for x in _lits(ct)]
                out.append(PanicSite(body, i, "unwrap", mir.short(callee), lits[0] if lits else "", sp, exp, ct))
                continue
            if callee in ("core::ops::index::Index::index", "core::ops::index::IndexMut::index_mut"):
                targs = t.get("targs", [])
                base = targs[0] if targs else ""
                idx = targs[1] if len(targs) > 1 else ""
                # RangeFull indexing cannot fail
                if "RangeFull" in idx:
                    continue
                # constant range / constant index into a fixed-size array, within its length: cannot fail
                m = re.match(r"^\[.*; (\d+)\]$", base.strip())
                if m and _const_index_within(ct, int(m.group(1))):
                    continue
                out.append(PanicSite(body, i, "index", "%s[%s]" % (_short_ty(base), _short_ty(idx)), "", sp, exp, ct))
                continue
            if callee in PANICKY_METHODS or resolved in PANICKY_METHODS:
                out.append(PanicSite(body, i, "method", mir.short(callee), "", sp, exp, ct))
                continue
            if callee in PANICKY_OPS:
                targs = t.get("targs", [])
                base = targs[0] if targs else ""
                # only user-defined arithmetic (newtypes around integers) and Duration/Instant
                if base.startswith("alpenglow::") or "Duration" in base or "Instant" in base:
                    out.append(PanicSite(body, i, "arith", "%s %s" % (last, _short_ty(base)), "", sp, exp, ct))
                continue
        elif k == "assert":
            ak = t["ak"]
            if ak.startswith("Overflow") and not include_overflow:
                continue
            if ak in ("ResumedAfterReturn", "ResumedAfterPanic", "ResumedAfterDrop", "MisalignedPointerDereference", "NullPointerDereference"):
                continue
            ops = [body.operand_term(o) for o in t["ops"]]
            ps = PanicSite(body, i, "assert", ak, "", sp, exp, ("tuple", tuple(ops)))
            ps.cond = body.operand_term(t["cond"])
            out.append(ps)
    # ordinals among equal (kind, what) in this body, in block order
    seen = {}
    for s in out:
        k = (s.kind, s.what, s.msg)
        s.ordinal = seen.get(k, 0)
        seen[k] = s.ordinal + 1
    return out


def _const_index_within(ct, n):
    """the index argument of an Index::index call term is a constant usize < n or a range with constant bounds 0 <= start <= end <= n"""
    try:
        arg = ct[2][1]
    except Exception:
        return False
    while isinstance(arg, tuple) and arg and arg[0] in ("ref", "deref", "cast") and len(arg) > 2:
        arg = arg[2] if arg[0] == "cast" else arg[1]

    def cint(t):
        return t[2] if isinstance(t, tuple) and len(t) >= 3 and t[0] == "const" and isinstance(t[2], int) else None
    v = cint(arg)
    if v is not None:
        return 0 <= v < n
    if isinstance(arg, tuple) and arg and arg[0] == "agg" and "ops::range::Range" in str(arg[1]):
        f = {}
        for name, t in arg[3]:
            f[name] = cint(t)
        kind = str(arg[1]).rsplit("::", 1)[-1]
        if any(v is None for v in f.values()):
            return False
        if kind == "Range":
            return 0 <= f.get("start", -1) <= f.get("end", -1) <= n
        if kind == "RangeTo":
            return 0 <= f.get("end", -1) <= n
        if kind == "RangeFrom":
            return 0 <= f.get("start", -1) <= n
        if kind == "RangeToInclusive":
            return 0 <= f.get("end", -1) < n
    return False


def _short_ty(t):
    t = t.replace("alpenglow::", "")
    t = re.sub(r"([a-z_0-9]+::)+", "", t)
    return t[:50]


def review(ob, prog, roots, table, fshort, stop=(), include_overflow=False, scope=None, skip=None, auto=None):
    """Reviewed-panic-site closure: every panic site in bodies reachable from `roots` (optionally
    restricted by scope(defpath)) must be covered by `table`:
        (fn path without crate prefix, kind, what) -> (max_count, reason[, status])
    status 'ok' (default) or 'finding' (reported as a failure with its own key so that it can be
    listed in known_findings.json). An unlisted site, or more sites than reviewed, is a failure."""
    import re as _re

    def nk(d):
        # closure numbering changes whenever a closure is added or removed earlier in the function: key by `{closure}`
        # ... and a loop body turned into a closure (for -> for_each / any) moves a site from the function into one of its
        # closures: the review is per function, closures included
        return d.replace("alpenglow::", "").split("::{closure")[0]
    def nw(kind, what):
        # `xs[i]`, `xs[a..b]`, `xs[..n]`: index sites of one function into one kind of collection are reviewed together (a loop over `xs[off + i]`
        # respelled as `xs[off..off + n].iter()` is the same access)
        if kind == "index" and "[" in str(what):
            return str(what).rsplit("[", 1)[0] + "[_]" if str(what).endswith("]") else what
        return what
    ntable = {}
    for k, v in table.items():
        kk = (nk(k[0]), k[1], "panicking::panic" if (k[1] == "panic" and str(k[2]).startswith("panicking::")) else nw(k[1], k[2]))
        if kk in ntable:
            o_ = ntable[kk]
            status = "finding" if "finding" in (tuple(o_[2:3]) + tuple(v[2:3])) else None
            ntable[kk] = (o_[0] + v[0], o_[1] if v[1] in o_[1] else o_[1] + " / " + v[1]) + ((status,) if status else ())
        else:
            ntable[kk] = v
    # a reviewed function that no longer exists was (most likely) folded into its caller(s): its reviewed sites are then
    # expected there; the instance keeps the key of the reviewed entry so that a known finding stays the same finding
    moved = {}
    try:
        import json as _json
        import os as _os
        with open(_os.path.join(_os.path.dirname(_os.path.dirname(_os.path.abspath(__file__))), "rules", "known_fns.json")) as fh:
            _rc = _json.load(fh).get("callers", {})
    except Exception:
        _rc = {}
    present = set(nk(d) for d in prog.bodies)
    for kk, v in list(ntable.items()):
        root = kk[0]
        if root in present:
            continue
        for c in _rc.get("alpenglow::" + root, []):
            ck = (nk(c), kk[1], kk[2])
            if ck in ntable:
                o_ = ntable[ck]
                ntable[ck] = (o_[0] + v[0], o_[1] + " / " + v[1]) + tuple(o_[2:3] or v[2:3])
            else:
                ntable[ck] = v
                moved[ck] = kk
    table = ntable
    U = prog.reachable_from(roots, stop=stop)
    groups = {}
    autos = {}
    nbodies = 0
    for d in sorted(U):
        b = prog.bodies[d]
        if b.generated:
            continue
        if scope is not None and not scope(d):
            continue
        nbodies += 1
        for s in sites(b, prog, include_overflow=include_overflow):
            if skip is not None and skip(s):
                continue
            if auto is not None:
                why = auto(s, prog)
                if why:
                    autos.setdefault((nk(d), s.kind, s.what, why), []).append(s)
                    continue
            groups.setdefault((nk(d), s.kind, nw(s.kind, s.what)), []).append(s)
    # `x.expect("msg")` <-> `let Some(..) = x else { panic!("msg") }` <-> `match x { None => panic!(..) }`: the same site, spelled as an
    # unwrap or as an explicit panic. Reviewed capacity of a function is therefore pooled over the two kinds: an explicit panic may use
    # the unused capacity of a reviewed unwrap entry of the same function (and vice versa).
    pooled = {}
    for k, ss in groups.items():
        if k[1] in ("panic", "unwrap"):
            rev0 = table.get(k)
            spare = (rev0[0] if rev0 and (len(rev0) < 3 or rev0[2] != "finding") else 0) - len(ss)
            pooled.setdefault(k[0], {})[k] = spare
    for (fnk, kind, what), v in list(table.items()):
        if kind in ("panic", "unwrap") and (fnk, kind, what) not in groups and (len(v) < 3 or v[2] != "finding"):
            pooled.setdefault(fnk, {})[(fnk, kind, what)] = v[0]
    borrowed = {}
    for fnk, ent in pooled.items():
        need = [(k, -sp) for k, sp in ent.items() if sp < 0]
        have = [[k, sp] for k, sp in ent.items() if sp > 0]
        for k, n in need:
            for h in have:
                if n <= 0:
                    break
                if h[0][1] != k[1] and h[1] > 0:
                    take = min(n, h[1])
                    h[1] -= take
                    n -= take
                    borrowed[k] = borrowed.get(k, 0) + take
                    borrowed.setdefault(("why", k), table[h[0]][1])
    for k, ss in sorted(groups.items()):
        rev = table.get(k)
        if k in borrowed:
            base = rev[0] if rev else 0
            rev = (base + borrowed[k], (rev[1] + " / " if rev else "") + "respelled unwrap/panic of: " + borrowed[("why", k)])
        status = rev[2] if rev and len(rev) > 2 else "ok"
        if rev and status == "finding":
            for s in ss:
                ob.fail("%s|%s|%s" % moved.get(k, k), "reviewed as a genuine finding: %s" % rev[1], s.span, {"msg": s.msg})
            continue
        n_ok = min(len(ss), rev[0]) if rev else 0
        if n_ok:
            ob.ok("%s|%s|%s" % k, "reviewed (%d site(s)): %s" % (n_ok, rev[1]), ss[0].span)
        for s in ss[n_ok:]:
            chain = prog.call_chain(list(roots), s.body.defpath)
            ob.fail("%s|%s|%s|unreviewed|%d" % (k[0], k[1], k[2], s.ordinal), "unreviewed panic site (%s %s %r)" % (s.kind, s.what, s.msg), s.span,
                    {"call_chain": [fshort(x) for x in chain][-6:] if chain else None, "reviewed_count": rev[0] if rev else 0, "found": len(ss)})
    for k, ss in sorted(autos.items()):
        ob.ok("%s|%s|%s|auto" % k[:3], "auto-discharged (%d site(s)): %s" % (len(ss), k[3]), ss[0].span, nontrivial=False)
    return nbodies, sum(len(v) for v in groups.values()) + sum(len(v) for v in autos.values())
