"""Check runner: obligations, instances, floors, known findings, evidence, exit codes."""
import json
import os
import sys
import time

from . import facts, mir

VERIF = facts.VERIF
EVIDENCE_DIR = os.environ.get("AGL_EVIDENCE_DIR") or os.path.join(VERIF, "evidence")
KNOWN = os.path.join(VERIF, "known_findings.json")

COMMON_ASSUMPTIONS = [
    "rustc's MIR construction (mir_built, nightly 1.97) faithfully represents the source; the driver's JSON dump is faithful",
    "dominance/guards are intraprocedural on the mir_built CFG with unwind edges removed; a guard living in a caller is not seen",
    "trait calls that cannot be resolved are fanned out to every impl in the analysed crates (over-approximation)",
    "third-party crates (blst, reed-solomon-simd, sha2, wincode and its derive, tokio, rand) are trusted",
    "only structural necessary conditions are decided; the behavioural statement of the property is not",
]


class Instance:
    __slots__ = ("ob", "key", "ok", "what", "site", "detail", "nontrivial")

    def __init__(self, ob, key, ok, what, site, detail, nontrivial):
        self.ob = ob
        self.key = key
        self.ok = ok
        self.what = what
        self.site = site
        self.detail = detail
        self.nontrivial = nontrivial

    def to_json(self):
        d = {"obligation": self.ob, "key": self.key, "verdict": "ok" if self.ok else "VIOLATED", "what": self.what, "site": self.site}
        if self.detail:
            d["detail"] = self.detail
        return d


class Obligation:
    def __init__(self, run, oid, title, why, floor):
        self.run = run
        self.oid = oid
        self.title = title
        self.why = why
        self.floor = floor
        self.instances = []

    def ok(self, key, what, site="", detail=None, nontrivial=True):
        self.instances.append(Instance(self.oid, "%s|%s" % (self.oid, key), True, what, site, detail, nontrivial))

    def fail(self, key, what, site="", detail=None):
        self.instances.append(Instance(self.oid, "%s|%s" % (self.oid, key), False, what, site, detail, True))

    def check(self, cond, key, what, site="", detail=None, fail_what=None):
        if cond:
            self.ok(key, what, site, detail)
        else:
            self.fail(key, fail_what or ("NOT: " + what), site, detail)
        return cond

    def missing(self, anchor):
        """an anchor the rule needs does not exist any more: fail closed"""
        self.fail("anchor-missing|%s" % anchor, "anchor missing: %s (rule cannot be evaluated; failing closed)" % anchor)


class Run:
    def __init__(self, prop, tier="quick", explanation="", level="other"):
        self.prop = prop
        self.tier = tier
        self.level = level
        self.explanation = explanation
        self.obligations = []
        self.t0 = time.time()
        self.analysed = {}
        self.assumptions = list(COMMON_ASSUMPTIONS)
        self.notes = []
        self.selftests = []
        self._progs = {}
        self.seed = int(os.environ.get("VERIF_SEED", "0") or 0)

    # ---------------------------------------------------------------- programs
    def program(self, cfg="lib"):
        if cfg not in self._progs:
            d = facts.extract(cfg)
            recs = facts.load_dir(d)
            inlined = []
            ki = os.path.join(VERIF, "rules", "known_items.json")
            if os.path.exists(ki) and not os.environ.get("AGL_NO_RENAME"):
                from . import rename
                with open(ki) as fh:
                    items = json.load(fh)
                recs, renamed = rename.apply(recs, items)
                if renamed:
                    self.notes.append("cfg %s: renamed items analysed under their reviewed names: %s" % (cfg, "; ".join(x.replace("alpenglow::", "") for x in renamed)))
                from . import deadnew

                def _others(cur=cfg):
                    for oc in ("lib", "bins"):
                        if oc != cur:
                            yield facts.load_dir(facts.extract(oc))
                recs, dropped = deadnew.prune(recs, items, _others)
                if dropped:
                    self.notes.append("cfg %s: new type(s) that no code outside their own impls mentions (library and binaries): not part of the running system, left out of the analysis: %s" % (
                        cfg, ", ".join(x.replace("alpenglow::", "") for x in dropped)))
            kf = os.path.join(VERIF, "rules", "known_fns.json")
            if os.path.exists(kf) and not os.environ.get("AGL_NO_INLINE"):
                from . import inline
                with open(kf) as fh:
                    known = set(json.load(fh)["fns"])
                recs, inlined = inline.inline_new_helpers(recs, known)
                if inlined:
                    self.notes.append("cfg %s: new private helper(s) analysed inlined into their callers: %s" % (
                        cfg, "; ".join("%s -> %s" % (h.replace("alpenglow::", ""), ", ".join("%s x%d" % (c.replace("alpenglow::", ""), k) for c, k in w)) for h, w in inlined)))
            p = mir.Program(recs)
            self._progs[cfg] = p
            cg = p.callgraph()
            self.analysed[cfg] = {
                "facts_dir": d,
                "crates": sorted(set(c["crate"] for c in p.crates)),
                "bodies": len(p.bodies),
                "adts": len(p.adts),
                "impls": len(p.impls),
                "consts": sum(len(v) for v in p.consts.values()),
                "call_edges": sum(len(v) for v in cg.values()),
                "unresolved_trait_calls_into_crate": p.unresolved_calls,
            }
        return self._progs[cfg]

    def fixtures(self):
        if "fixtures" not in self._progs:
            d = facts.extract_fixtures()
            self._progs["fixtures"] = mir.Program(facts.load_dir(d))
        return self._progs["fixtures"]

    def ob(self, oid, title, why, floor=1):
        o = Obligation(self, oid, title, why, floor)
        keep = getattr(self, "only", None)
        if keep is None or keep(oid):
            self.obligations.append(o)
        # else: composed from another property's module, but not part of what the composing property needs: evaluated and discarded
        return o

    def restricted(self, keep):
        """context manager: while active, only obligations whose id satisfies `keep` are registered (used to compose a subset of another
        property's obligations without refactoring that module)"""
        run = self

        class _R:
            def __enter__(self_):
                self_.prev = getattr(run, "only", None)
                run.only = keep if self_.prev is None else (lambda oid, a=self_.prev, b=keep: a(oid) and b(oid))
                self_.nnotes = len(run.notes)

            def __exit__(self_, *exc):
                run.only = self_.prev
                return False
        return _R()

    def selftest(self, name, fired, expected):
        """fixture self-test: detector `name` fired (bool) vs expected (bool)"""
        self.selftests.append({"name": name, "fired": bool(fired), "expected": bool(expected), "ok": bool(fired) == bool(expected)})

    # ---------------------------------------------------------------- finish
    def finish(self):
        known = []
        if os.path.exists(KNOWN):
            with open(KNOWN) as fh:
                known = json.load(fh)
        known_keys = {k["key"]: k for k in known if k.get("status") == "known" and k.get("property") == self.prop}

        # floors: a rule that matches fewer instances than confirmed by hand fails closed
        for o in self.obligations:
            n = len(o.instances)
            if n < o.floor:
                o.fail("floor", "only %d instance(s) matched, floor is %d (anchor moved or rule no longer matches; failing closed)" % (n, o.floor))

        violations = []
        matched_known = []
        all_inst = []
        for o in self.obligations:
            for i in o.instances:
                all_inst.append(i)
                if not i.ok:
                    if i.key in known_keys:
                        matched_known.append((i, known_keys[i.key]))
                    else:
                        violations.append(i)

        broken = [s for s in self.selftests if not s["ok"]]

        os.makedirs(EVIDENCE_DIR, exist_ok=True)
        replay_dir = os.path.join(EVIDENCE_DIR, "replay")
        lines = []
        for i, kf in matched_known:
            lines.append("KNOWN-FINDING: property=%s %s [%s]" % (self.prop, kf.get("what", i.what), i.key))
        replay_paths = []
        if violations:
            os.makedirs(replay_dir, exist_ok=True)
            for n, i in enumerate(violations):
                rp = os.path.join(replay_dir, "%s-%d.json" % (self.prop, n))
                with open(rp, "w") as fh:
                    json.dump({
                        "property": self.prop,
                        "instance": i.to_json(),
                        "obligation_title": next(o.title for o in self.obligations if o.oid == i.ob),
                        "necessary_because": next(o.why for o in self.obligations if o.oid == i.ob),
                        "rerun": "bin/check %s" % self.prop,
                    }, fh, indent=1)
                replay_paths.append(rp)
                lines.append("VIOLATION property=%s replay=%s" % (self.prop, rp))
                lines.append("  %s: %s @ %s" % (i.key, i.what, i.site))

        n_ob = len(self.obligations)
        n_dis = sum(1 for o in self.obligations if all(i.ok or i.key in known_keys for i in o.instances))
        distinct = len(set(i.key for i in all_inst if i.nontrivial))
        samples = []
        per_ob = {}
        for i in all_inst:
            per_ob.setdefault(i.ob, 0)
            if per_ob[i.ob] < 4:
                samples.append(i.to_json())
                per_ob[i.ob] += 1
        ev = {
            "property_id": self.prop,
            "tier": self.tier,
            "seed": self.seed,
            "level": self.level,
            "coverage": {
                "explanation": self.explanation,
                "obligations": n_ob,
                "discharged": n_dis,
                "evaluations": len(all_inst),
                "distinct_nontrivial": distinct,
                "rule": "one evaluation = one rule instance (a call site, field write, construction site, CFG path, table row or constant) examined on the current /repo tree; non-trivial = the instance has a concrete site/guard/path/value (not a bare existence test); distinct by violation key",
                "samples": samples,
                "obligation_list": [
                    {"id": o.oid, "title": o.title, "necessary_because": o.why, "floor": o.floor,
                     "instances": len(o.instances), "failed": sum(1 for i in o.instances if not i.ok)}
                    for o in self.obligations
                ],
                "analysed": self.analysed,
                "fixtures": self.selftests,
                "known_findings_matched": [i.key for i, _ in matched_known],
                "notes": self.notes,
                "exhaustive": False,
            },
            "assumptions": self.assumptions,
            "wall_s": round(time.time() - self.t0, 3),
            "violations": len(violations),
        }
        with open(os.path.join(EVIDENCE_DIR, "%s.json" % self.prop), "w") as fh:
            json.dump(ev, fh, indent=1)

        try:
            print("== %s tier=%s: %d obligations, %d instances, %d violations, %d known findings, %d/%d fixture self-tests ok (%.1fs)" % (
                self.prop, self.tier, n_ob, len(all_inst), len(violations), len(matched_known),
                len(self.selftests) - len(broken), len(self.selftests), time.time() - self.t0))
            for o in self.obligations:
                bad = [i for i in o.instances if not i.ok]
                print("  %-7s %-3s %3d inst  %s" % (o.oid, "ok" if not bad else "BAD", len(o.instances), o.title))
            for l in lines:
                print(l)
            if broken:
                for s in broken:
                    print("CHECKER-BROKEN fixture self-test %s: fired=%s expected=%s" % (s["name"], s["fired"], s["expected"]))
            sys.stdout.flush()
        except BrokenPipeError:
            pass        # the reader went away (e.g. `| head`): the verdict is the exit code
        if violations:
            return 1
        if broken:
            return 2
        return 0
