"""Bounded acyclic path enumeration (P6) of small bodies: decision tables without a solver.

A path is a list of decisions (switch_bb, label) plus the value returned on it (the last assignment
to the return place along the path). Atoms are normalised with engine.guards; a path is discarded as
infeasible only when it contains the same atom with both polarities, or two disjoint variant sets
for the same place.
"""
from . import guards as G
from . import mir


class TooManyPaths(Exception):
    pass


def enumerate_paths(body, max_paths=4096):
    """yields (blocks, decisions) for every acyclic path entry -> Return (panic sinks are dropped)"""
    out = []
    es = body.edges()
    succ = {}
    for idx, (a, b, l) in enumerate(es):
        succ.setdefault(a, []).append((b, l))
    stack = [(0, [0], [])]
    while stack:
        bb, blocks, decs = stack.pop()
        t = body.blocks[bb]["term"]
        if t["k"] == "return":
            out.append((blocks, decs))
            if len(out) > max_paths:
                raise TooManyPaths(body.defpath)
            continue
        for (nb, l) in succ.get(bb, []):
            if nb in blocks:
                continue  # loops are cut: one opaque iteration
            nd = decs + [(bb, l[1])] if l[0] == "sw" else decs
            stack.append((nb, blocks + [nb], nd))
    return out


def path_atoms(body, prog, decs):
    atoms = []
    for (s, v) in decs:
        t = body.blocks[s]["term"]
        dterm = body.operand_term(t["d"])
        atoms.extend(G._edge_atoms(body, s, (v,), dterm, t.get("dty", ""), prog))
    return atoms


def feasible(atoms):
    seen = {}
    var = {}
    for a in atoms:
        pred, args, pol = a[0], a[1], a[2]
        if pred == "variant":
            k = args[0]
            if k in var and not (var[k] & args[1]):
                return False
            var[k] = (var[k] & args[1]) if k in var else set(args[1])
            continue
        k = (pred, args)
        if k in seen and seen[k] != pol:
            return False
        seen[k] = pol
    return True


def return_value(body, blocks):
    """term of the value in _0 at the end of the path: the last def of _0 on the path"""
    val = None
    for bb in blocks:
        b = body.blocks[bb]
        for st in b["stmts"]:
            if st["k"] == "assign" and st["dst"]["l"] == 0 and not st["dst"]["p"]:
                val = body.rvalue_term(st["rv"])
        t = b["term"]
        if t["k"] == "call" and t["dst"]["l"] == 0 and not t["dst"]["p"]:
            val = body.call_term(bb, t)
    return val


def resolve_locals(body, blocks, atoms):
    """path-sensitive value of multi-definition bool locals (matches! / `let b = match ..` temporaries): an atom bool(local)
    tested in block s is replaced by the value the local was last given on this path (a constant -> the atom is dropped or
    the path is infeasible; a computed term -> the normalised atom of that term). Returns None for an infeasible path."""
    out = []
    for a in atoms:
        if not (a[0] == "bool" and isinstance(a[1][0], tuple) and a[1][0] and a[1][0][0] == "local" and len(a) > 3 and a[3] in blocks):
            out.append(a)
            continue
        l = a[1][0][1]
        upto = blocks[:blocks.index(a[3]) + 1]
        last = None
        for bb in upto:
            b = body.blocks[bb]
            for st in b["stmts"]:
                if st["k"] == "assign" and st["dst"]["l"] == l and not st["dst"]["p"]:
                    last = ("stmt", body.rvalue_term(st["rv"]), bb)
            t = b["term"]
            if t["k"] == "call" and t["dst"]["l"] == l and not t["dst"]["p"] and bb != a[3]:
                last = ("call", body.call_term(bb, t), bb)
        if last is None:
            out.append(a)
            continue
        t = last[1]
        if isinstance(t, tuple) and t and t[0] == "const" and t[1] == "bool":
            if bool(t[2]) != a[2]:
                return None
            continue
        out.append(G.norm_bool(t, a[2]) + (last[2],))
    return out


def _last_def(body, blocks, l):
    last = None
    for bb in blocks:
        b = body.blocks[bb]
        for st in b["stmts"]:
            if st["k"] == "assign" and st["dst"]["l"] == l and not st["dst"]["p"]:
                last = body.rvalue_term(st["rv"])
        tm = b["term"]
        if tm["k"] == "call" and tm["dst"]["l"] == l and not tm["dst"]["p"]:
            last = body.call_term(bb, tm)
    return last


def resolve_value(body, blocks, t, _depth=0):
    """multi-definition locals inside a returned term -> the value they were last given on this path (deep)"""
    if _depth > 6 or not isinstance(t, tuple) or not t:
        return t
    if t[0] == "local":
        last = _last_def(body, blocks, t[1])
        if last is None or last == t:
            return t
        return resolve_value(body, blocks, last, _depth + 1)
    if t[0] in ("call",):
        return (t[0], t[1], tuple(resolve_value(body, blocks, a, _depth + 1) for a in t[2])) + tuple(t[3:])
    if t[0] == "agg" and len(t) > 3:
        return (t[0], t[1], t[2], tuple((n, resolve_value(body, blocks, v, _depth + 1)) for (n, v) in t[3])) + tuple(t[4:])
    if t[0] == "un" and len(t) > 2:
        x = resolve_value(body, blocks, t[2], _depth + 1)
        if t[1] == "Not" and isinstance(x, tuple) and x and x[0] == "const" and x[1] == "bool":
            return ("const", "bool", 0 if x[2] else 1)
        if t[1] == "Not" and isinstance(x, tuple) and x and x[0] == "un" and x[1] == "Not":
            return x[2]
        return (t[0], t[1], x) + tuple(t[3:])
    if t[0] == "cast" and len(t) > 3:
        return (t[0], t[1], resolve_value(body, blocks, t[2], _depth + 1)) + tuple(t[3:])
    if t[0] == "bin" and len(t) > 3:
        return (t[0], t[1], resolve_value(body, blocks, t[2], _depth + 1), resolve_value(body, blocks, t[3], _depth + 1)) + tuple(t[4:])
    return t


def decision_table(body, prog, max_paths=4096):
    """list of (atoms, return term, blocks) for the feasible paths"""
    rows = []
    for blocks, decs in enumerate_paths(body, max_paths):
        atoms = path_atoms(body, prog, decs)
        atoms = resolve_locals(body, blocks, atoms)
        if atoms is None or not feasible(atoms):
            continue
        ret = return_value(body, blocks)
        ret = resolve_value(body, blocks, ret)
        rows.append((atoms, ret, blocks))
        continue
        rows.append((atoms, return_value(body, blocks), blocks))
    return rows


def bool_truth_table(body, prog):
    """For a small bool-returning body: (atoms, table) where atoms is the ordered list of distinct
    boolean terms it branches on / returns, and table maps each assignment (tuple of bools) to the
    returned bool. Returns None when the body is not of that shape (non-bool decisions, loops)."""
    rows = decision_table(body, prog)
    terms = []

    def idx(t):
        if t not in terms:
            terms.append(t)
        return terms.index(t)

    prows = []
    for atoms, ret, blocks in rows:
        conds = []
        for a in atoms:
            if a[0] != "bool":
                # normalised comparisons count as opaque boolean atoms too
                t = (a[0], a[1])
                conds.append((idx(t), a[2]))
            else:
                conds.append((idx(a[1][0]), a[2]))
        if ret is None:
            return None
        if ret[0] == "const" and ret[1] == "bool":
            r = ("const", bool(ret[2]))
        else:
            nb = G.norm_bool(ret, True)
            t = nb[1][0] if nb[0] == "bool" else (nb[0], nb[1])
            r = ("atom", idx(t), nb[2])
        prows.append((conds, r))
    import itertools
    table = {}
    for asg in itertools.product([False, True], repeat=len(terms)):
        outs = set()
        for conds, r in prows:
            if all(asg[i] == pol for i, pol in conds):
                outs.add(r[1] if r[0] == "const" else (asg[r[1]] == r[2]))
        if len(outs) != 1:
            return None
        table[asg] = next(iter(outs))
    return terms, table


def region_table(body, prog, start, stops, header, max_paths=4096):
    """paths of ONE loop iteration: from block `start` (first block of the loop body) until one of `stops` is reached ('stop', bb) or the
    path returns to the loop `header` ('latch') or leaves the function ('return'); rows (atoms, outcome, blocks) of the feasible ones"""
    es = body.edges()
    succ = {}
    for (a, b, l) in es:
        succ.setdefault(a, []).append((b, l))
    rows = []
    stack = [(start, [start], [])]
    n = 0
    stops = set(stops)
    while stack:
        bb, blocks, decs = stack.pop()
        out = None
        if bb in stops:
            out = ("stop", bb)
        elif body.blocks[bb]["term"]["k"] == "return":
            out = ("return", bb)
        if out is None:
            nxt = succ.get(bb, [])
            if not nxt:
                continue        # panic sink / unreachable
            for (nb, l) in nxt:
                nd = decs + [(bb, l[1])] if l[0] == "sw" else decs
                if nb == header:
                    n += 1
                    atoms = resolve_locals(body, blocks, path_atoms(body, prog, nd))
                    if atoms is not None and feasible(atoms):
                        rows.append((atoms, ("latch", bb), blocks))
                    continue
                if nb in blocks:
                    continue
                stack.append((nb, blocks + [nb], nd))
            continue
        n += 1
        if n > max_paths:
            raise TooManyPaths(body.defpath)
        atoms = resolve_locals(body, blocks, path_atoms(body, prog, decs))
        if atoms is not None and feasible(atoms):
            rows.append((atoms, out, blocks))
    return rows
