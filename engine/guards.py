"""Guard normalisation (P5) and deep term queries.

A normalised guard atom is (pred, args, polarity) where pred is one of
  'is_some'  args=(x,)        Option is Some / discriminant test
  'eq'       args=(a,b)
  'lt'       args=(a,b)        a < b   (le/gt/ge are rewritten)
  'le'       args=(a,b)
  'variant'  args=(x, names)   enum discriminant in names (polarity True) -- other enums than Option
  'bool'     args=(term,)      any other boolean term
polarity: True/False = the atom holds / does not hold on the guarded edge.
"""
from . import mir
from .mir import show, walk

NEG_CALLS = {
    "core::option::Option::is_none": ("core::option::Option::is_some",),
    "core::result::Result::is_err": ("core::result::Result::is_ok",),
}

CMP = {
    # name -> (pred, swap, negate)
    "Lt": ("lt", False, False), "Ge": ("lt", False, True), "Gt": ("lt", True, False), "Le": ("lt", True, True),
    "Eq": ("eq", False, False), "Ne": ("eq", False, True),
}
CMP_CALLS = {
    "core::cmp::PartialOrd::lt": "Lt", "core::cmp::PartialOrd::le": "Le", "core::cmp::PartialOrd::gt": "Gt", "core::cmp::PartialOrd::ge": "Ge",
    "core::cmp::PartialEq::eq": "Eq", "core::cmp::PartialEq::ne": "Ne",
}


def _cmp_call(name):
    last = name.rsplit("::", 1)[-1]
    m = {"lt": "Lt", "le": "Le", "gt": "Gt", "ge": "Ge", "eq": "Eq", "ne": "Ne"}
    if last in m and ("PartialOrd" in name or "PartialEq" in name or name.startswith(("core::cmp::", "core::tuple::", "core::array::", "core::slice::", "core::option::", "alloc::vec::", "alloc::string::"))):
        return m[last]
    return None


def norm_bool(term, pol):
    """normalise boolean `term` holding with polarity `pol` -> (pred, args, pol)"""
    t = term
    while isinstance(t, tuple) and t and t[0] == "un" and t[1] == "Not":
        t = t[2]
        pol = not pol
    if isinstance(t, tuple) and t:
        if t[0] == "bin" and t[1] in CMP:
            pred, swap, neg = CMP[t[1]]
            a, b = (t[3], t[2]) if swap else (t[2], t[3])
            # comparison against literal bool
            if pred == "eq" and isinstance(b, tuple) and b[0] == "const" and b[1] == "bool":
                return norm_bool(a, pol if (bool(b[2]) != neg) else (not pol))
            return (pred, (a, b), pol != neg)
        if t[0] == "call":
            name = t[1]
            op = _cmp_call(name)
            if op and len(t[2]) == 2:
                pred, swap, neg = CMP[op]
                a, b = (t[2][1], t[2][0]) if swap else (t[2][0], t[2][1])
                return (pred, (a, b), pol != neg)
            if name.endswith("Option::is_none") or name.endswith("option::Option::<T>::is_none"):
                return ("is_some", (t[2][0],), not pol)
            if name.endswith("Option::is_some"):
                return ("is_some", (t[2][0],), pol)
            if name.endswith("Result::is_err"):
                return ("is_ok", (t[2][0],), not pol)
            if name.endswith("Result::is_ok"):
                return ("is_ok", (t[2][0],), pol)
    return ("bool", (t,), pol)


def guard_atoms(body, bb, prog=None, assume=(), _depth=0):
    """normalised atoms of all switch edges dominating block bb"""
    out = []
    for (s, vals, dterm, dty) in body.guards_of(bb, assume):
        for a in _edge_atoms(body, s, vals, dterm, dty, prog):
            out.append(a)
            # `matches!(x, P)` / `let b = match ..` lower to a bool local assigned constants in the arms:
            # the atom bool(local)=pol then implies the guards of the unique block assigning `pol`
            if a[0] == "bool" and isinstance(a[1][0], tuple) and a[1][0][0] == "local" and _depth < 3:
                l = a[1][0][1]
                defs = body.defs().get(l, [])
                # defs that can produce the value `pol`: constants equal to pol, and non-constant definitions
                same_const, other = [], []
                ok = bool(defs)
                for d in defs:
                    if d[0] == "stmt":
                        t = body.rvalue_term(d[3]["rv"])
                        if isinstance(t, tuple) and t and t[0] == "const" and t[1] == "bool":
                            if bool(t[2]) == a[2]:
                                same_const.append(d[1])
                        else:
                            other.append((d[1], t))
                    elif d[0] == "call":
                        other.append((d[1], body.call_term(d[1], d[3])))
                    else:
                        ok = False
                        break
                # definitions in blocks that cannot be reached under `assume` do not count
                if assume:
                    live = body.reach_under(assume)
                    same_const = [x for x in same_const if x in live]
                    other = [(x, t) for (x, t) in other if x in live]
                implied = []
                if ok and len(same_const) == 1 and not other and same_const[0] != bb:
                    # `matches!` lowering: the unique block assigning `pol`
                    implied = guard_atoms(body, same_const[0], prog, assume, _depth + 1)
                elif ok and not same_const and len(other) == 1 and len(defs) >= 2:
                    # `let b = match x { Some(s) => s.test(), None => false }`: b == true implies the arm's guards and test()
                    dbb, t = other[0]
                    implied = list(guard_atoms(body, dbb, prog, assume, _depth + 1))
                    nb = norm_bool(t, a[2])
                    implied.append(nb + (dbb,))
                elif ok and (len(same_const) + len(other)) >= 2 and _depth < 2:
                    # several ways to obtain `pol` (e.g. an inlined predicate with one result per branch): what holds in every one of them
                    cands = []
                    for x in same_const:
                        cands.append([y[:3] for y in guard_atoms(body, x, prog, assume, _depth + 1)])
                    for (dbb, t) in other:
                        c = [y[:3] for y in guard_atoms(body, dbb, prog, assume, _depth + 1)]
                        c.append(norm_bool(t, a[2])[:3])
                        cands.append(c)
                    common = [y for y in cands[0] if all(y in c for c in cands[1:])]
                    implied = [y + (None,) for y in common]
                for x in implied:
                    if x not in out:
                        out.append(x)
                # the meaning of a compiler temporary (matches!, `let b = match ..`) is carried entirely by the implied atoms:
                # leave a marker so that "no extra condition" rules do not count the temporary itself
                if implied and (body.local_name(l) is None or (not same_const and len(other) == 1)):
                    out.append(("lowered", (a[1][0],), a[2], a[3] if len(a) > 3 else None))
    return out


def _canon(prog, a):
    """`x == Enum::UnitVariant` (derived PartialEq on an enum) is the same test as `matches!(x, Enum::UnitVariant)`"""
    if a[0] != "eq" or prog is None:
        return a
    x, y = a[1]
    for (p, q) in ((x, y), (y, x)):
        if isinstance(q, tuple) and q and q[0] == "agg" and len(q) > 3 and not q[3]:
            adt = prog.adts.get(q[1])
            if adt and adt.get("is_enum"):
                names = [v["name"] for v in adt["variants"]]
                if q[2] in names:
                    vs = frozenset([q[2]]) if a[2] else frozenset(n for n in names if n != q[2])
                    return ("variant", (p, vs), True) + tuple(a[3:])
    return a


def _edge_atoms(body, s, vals, dterm, dty, prog):
    return [_canon(prog, a) for a in _edge_atoms0(body, s, vals, dterm, dty, prog)]


def _edge_atoms0(body, s, vals, dterm, dty, prog):
    out = []
    if dty == "bool":
        # arms: value 0 -> false ; else -> true
        if vals == (0,):
            out.append(norm_bool(dterm, False) + (s,))
        elif vals == ("else",):
            arms = body.switch_arm_values(s)
            if arms == [0]:
                out.append(norm_bool(dterm, True) + (s,))
            elif arms == [1]:
                out.append(norm_bool(dterm, False) + (s,))
        elif vals == (1,):
            out.append(norm_bool(dterm, True) + (s,))
        return out
    if isinstance(dterm, tuple) and dterm and dterm[0] == "discr":
        x = dterm[1]
        names = _variant_names(body, s, x, vals, prog)
        if names is not None:
            adt, ns, all_names = names
            if adt == "core::option::Option":
                if ns == {"Some"}:
                    out.append(("is_some", (x,), True, s))
                elif ns == {"None"}:
                    out.append(("is_some", (x,), False, s))
            elif adt == "core::result::Result":
                if ns == {"Ok"}:
                    out.append(("is_ok", (x,), True, s))
                elif ns == {"Err"}:
                    out.append(("is_ok", (x,), False, s))
            else:
                out.append(("variant", (x, frozenset(ns)), True, s))
        else:
            out.append(("discr", (x, vals), True, s))
        return out
    # integer switch (e.g. match on u8 / matching a bool-valued call compared with constants)
    out.append(("switch", (dterm, vals), True, s))
    return out


def _discr_type(body, s):
    """the type string of the place whose discriminant is switched on in block s"""
    t = body.blocks[s]["term"]
    d = t["d"]
    pl = d.get("m") or d.get("c")
    if not pl or pl["p"]:
        return None
    l = pl["l"]
    for kind, bb, idx, st in body.defs().get(l, []):
        if kind == "stmt" and st["rv"]["k"] == "discr":
            return _place_type(body, st["rv"]["pl"])
    return None


def _place_type(body, pl):
    """best-effort type string of a place: only exact for projection-free places or when the last
    projection is a deref of a local reference"""
    ty = body.local_ty(pl["l"])
    projs = pl["p"]
    if not projs:
        return ty
    # strip refs for derefs at the start
    i = 0
    while i < len(projs) and projs[i][0] == "d":
        ty = _strip_ref(ty)
        i += 1
    if i == len(projs):
        return ty
    return None


def _strip_ref(ty):
    ty = ty.strip()
    if ty.startswith("&"):
        ty = ty[1:].strip()
        if ty.startswith("'"):
            ty = ty.split(" ", 1)[1] if " " in ty else ty
        if ty.startswith("mut "):
            ty = ty[4:]
    return ty.strip()


def _discr_info(body, s):
    """(adt path, {discr value: variant name}) of the place whose discriminant is switched on in block s"""
    t = body.blocks[s]["term"]
    d = t["d"]
    pl = d.get("m") or d.get("c")
    if not pl or pl["p"]:
        return None
    for kind, bb, idx, st in body.defs().get(pl["l"], []):
        if kind == "stmt" and st["rv"]["k"] == "discr" and "adt" in st["rv"]:
            return mir.strip_generics(st["rv"]["adt"]), {int(v): n for v, n in st["rv"]["variants"]}
    return None


def _variant_names(body, s, x, vals, prog):
    info = _discr_info(body, s)
    if info is None:
        return None
    adt, table = info
    arms = body.switch_arm_values(s)
    ns = set()
    for v in vals:
        if v == "else":
            for k, n in table.items():
                if k not in arms:
                    ns.add(n)
        elif v in table:
            ns.add(table[v])
    return adt, ns, set(table.values())


# ------------------------------------------------------------------------------------ deep queries

def closures_in(term):
    return [t[1] for t in walk(term) if isinstance(t, tuple) and t and t[0] == "closure"]


def deep_fields(prog, term, depth=2, _seen=None):
    """(owner, field) pairs mentioned by the term, by closures it passes, and by crate functions it
    calls (to `depth` levels)"""
    out = set(mir.fields_in(term))
    if _seen is None:
        _seen = set()
    if depth <= 0:
        return out
    targets = set(closures_in(term))
    for c in mir.calls_in(term):
        if c[1] in prog.bodies:
            targets.add(c[1])
        else:
            for i in prog.trait_impls().get(c[1], []):
                targets.add(i)
    for f in [t[1] for t in walk(term) if isinstance(t, tuple) and t and t[0] == "fn"]:
        targets.add(f)
    for d in targets:
        if d in _seen or d not in prog.bodies:
            continue
        _seen.add(d)
        b = prog.bodies[d]
        for (_bb, owner, name, _sp) in b.field_reads():
            out.add((owner, name))
        if depth > 1:
            for c in b.calls():
                for tgt in prog.callees_of_site(c):
                    if tgt not in _seen:
                        _seen.add(tgt)
                        for (_bb, owner, name, _sp) in prog.bodies[tgt].field_reads():
                            out.add((owner, name))
            for fam in prog.family(d):
                if fam.defpath not in _seen:
                    _seen.add(fam.defpath)
                    for (_bb, owner, name, _sp) in fam.field_reads():
                        out.add((owner, name))
    return out


def deep_calls(prog, term, depth=1):
    """names of functions called by the term and (depth levels) by the closures / crate fns in it"""
    out = set(c[1] for c in mir.calls_in(term))
    if depth <= 0:
        return out
    targets = set(closures_in(term)) | set(n for n in out if n in prog.bodies)
    for d in targets:
        if d in prog.bodies:
            for c in prog.bodies[d].calls():
                out.add(c.name)
    return out


def mentions_param(term, name):
    for t in walk(term):
        if isinstance(t, tuple) and t and ((t[0] in ("param", "local") and t[2] == name) or (t[0] == "upvar" and t[1] == name)):
            return True
    return False


def field_names(fields, owner_suffix=None):
    return set(n for (o, n) in fields if owner_suffix is None or o.endswith(owner_suffix))


def atoms_show(atoms):
    out = []
    for a in atoms:
        pred, args, pol = a[0], a[1], a[2]
        if pred in ("variant",):
            out.append("%s(%s in %s)" % ("" if pol else "!", show(args[0]), sorted(args[1])))
        elif pred in ("discr", "switch"):
            out.append("%s in %s" % (show(args[0]), list(args[1])))
        else:
            out.append("%s%s(%s)" % ("" if pol else "!", pred, ", ".join(show(x) for x in args)))
    return out


def switch_atoms(body, s, prog=None):
    """for switch block s: {label value: [atoms holding on that edge]}"""
    t = body.blocks[s]["term"]
    dterm = body.operand_term(t["d"])
    dty = t.get("dty", "")
    out = {}
    for v in body.switch_arm_values(s) + ["else"]:
        out[v] = _edge_atoms(body, s, (v,), dterm, dty, prog)
    return out


def find_switch(prog, body, *, pred=None, fields=None, calls=None, owner=None, dominating=None, depth=2, calls_depth=0):
    """find switch blocks whose (True-edge) atom matches; returns list of (bb, true_vals, false_vals)"""
    out = []
    for (s, dterm, dty) in body.switches():
        if dominating is not None and not body.dominates(s, dominating):
            continue
        sa = switch_atoms(body, s, prog)
        tv, fv = [], []
        hit = False
        for v, atoms in sa.items():
            for a in atoms:
                if _atom_matches(prog, a, pred, None, fields, calls, owner, None, depth, calls_depth):
                    hit = True
                    (tv if a[2] else fv).append(v)
        if hit:
            out.append((s, tuple(tv), tuple(fv)))
    return out


def _atom_matches(prog, a, pred, polarity, fields, calls, owner, params, depth, calls_depth=0):
    p, args, pol = a[0], a[1], a[2]
    if pred is not None and p not in (pred if isinstance(pred, (tuple, list, set)) else (pred,)):
        return False
    if polarity is not None and pol != polarity:
        return False
    terms = [x for x in args if isinstance(x, tuple)]
    if fields:
        fs = set()
        for t in terms:
            fs |= field_names(deep_fields(prog, t, depth), owner)
        if not set(fields) <= fs:
            return False
    if calls:
        cs = set()
        for t in terms:
            cs |= deep_calls(prog, t, calls_depth)
        if not all(any(c.endswith(w) for c in cs) for w in calls):
            return False
    if params:
        if not all(any(mentions_param(t, pn) for t in terms) for pn in params):
            return False
    return True


def has_guard(prog, body, bb, *, pred=None, polarity=None, fields=None, calls=None, owner=None, params=None, depth=2, assume=(), calls_depth=0, interproc=True):
    for a in guard_atoms(body, bb, prog, assume):
        if _atom_matches(prog, a, pred, polarity, fields, calls, owner, params, depth, calls_depth):
            return a
    if interproc and prog is not None:
        # the guard may live in the caller(s) of a crate-private helper: it counts when it holds at every call site
        for a in caller_atoms(prog, body) or []:
            if _atom_matches(prog, a, pred, polarity, fields, calls, owner, params, depth, calls_depth):
                return a
    return None


def guard_atoms_ip(body, bb, prog, assume=()):
    """local guard atoms plus the ones common to all callers of a crate-private helper (marked with a 5th element 'caller')"""
    return list(guard_atoms(body, bb, prog, assume)) + list(caller_atoms(prog, body) or [])




# ------------------------------------------------------------------------------------ guards living in callers
def _strip_ids(t):
    """structural copy of a term without the block ids of call terms (so that terms of different bodies can be compared)"""
    if isinstance(t, tuple):
        if t and t[0] == "call" and len(t) > 3:
            return ("call", t[1], tuple(_strip_ids(a) for a in t[2]))
        return tuple(_strip_ids(a) for a in t)
    return t


def _logic_root(prog, body):
    """(fn body, how its parameters appear inside `body`): for an `async fn` the code lives in fn::{closure#0} and the
    parameters are its captures, in order"""
    d = body.defpath
    if body.is_closure:
        if not d.endswith("::{closure#0}"):
            return None, None
        root = prog.bodies.get(d[:-len("::{closure#0}")])
        if root is None or not root.rec.get("asyncness"):
            return None, None
        caps = list(body.captures)
        return root, (lambda i: ("upvar", caps[i - 1]) if 0 < i <= len(caps) else None)
    return body, (lambda i: ("param", i, body.local_name(i)))


def caller_atoms(prog, body, max_callers=12):
    """Guard atoms that hold at EVERY call site of the (crate-private) function `body` belongs to, rewritten into the callee's
    vocabulary (caller argument terms -> callee parameters). None when the callers are not all known (public fn, no caller,
    too many). Only conditions common to all callers are returned."""
    root, pterm = _logic_root(prog, body)
    if root is None or root.rec.get("vis") == "Public":
        return None
    sites = prog.callers_of(root.defpath)
    sites = [c for c in sites if c.body.defpath != body.defpath and c.body.defpath != root.defpath]   # ignore recursion
    if not sites or len(sites) > max_callers:
        return None
    common = None
    for c in sites:
        sub = {}
        for i, a in enumerate(c.args):
            pt = pterm(i + 1)
            if pt is not None:
                at = _strip_ids(c.body.operand_term(a))
                sub[at] = _strip_ids(pt)
                # a reference / copy of the argument is the same value for guard purposes
                pa = at
                while isinstance(pa, tuple) and pa and pa[0] in ("ref", "copy", "move", "deref") and len(pa) > 1:
                    pa = pa[1]
                    sub.setdefault(pa, _strip_ids(pt))

        def rw(t):
            if t in sub:
                return sub[t]
            if isinstance(t, tuple):
                return tuple(rw(x) for x in t)
            return t
        here = set()
        for a in guard_atoms(c.body, c.bb, prog):
            if a[0] in ("lowered",):
                continue
            args = rw(_strip_ids(a[1]))
            # keep only conditions that speak about the callee's own parameters (everything else is the caller's business
            # and must not be mistaken for a guard on the callee's subject)
            allowed = set(sub.values())
            foreign = False

            def leaves(t):
                nonlocal foreign
                if isinstance(t, tuple):
                    if t and t[0] in ("param", "upvar", "local") and t not in allowed:
                        foreign = True
                        return
                    if t in allowed:
                        return
                    for x in t:
                        leaves(x)
            leaves(args)
            if foreign:
                continue
            here.add((a[0], args, a[2]))
        common = here if common is None else (common & here)
        if not common:
            return []
    return [x + (None, "caller") for x in sorted(common, key=repr)]
