//! agl-facts: a rustc driver that dumps MIR (mir_built), ADT, impl and const facts of the
//! `alpenglow` crates (and the `agl_fixtures` crate) as JSON lines. For any other crate it is a
//! transparent rustc. Used through RUSTC_WORKSPACE_WRAPPER; argv[1] is the real rustc path.
//!
//! Environment:
//!   AGL_FACTS_DIR   directory the fact files are written to (required to emit facts)
//!   AGL_FACTS_CRATES comma separated crate names to dump (default: alpenglow,agl_fixtures + bins)
#![feature(rustc_private)]
#![allow(clippy::all)]

extern crate rustc_abi;
extern crate rustc_driver;
extern crate rustc_hir;
extern crate rustc_interface;
extern crate rustc_middle;
extern crate rustc_session;
extern crate rustc_span;

use std::fmt::Write as _;

use rustc_driver::{Callbacks, Compilation};
use rustc_hir::def::DefKind;
use rustc_hir::def_id::{DefId, LocalDefId};
use rustc_interface::interface::Compiler;
use rustc_middle::mir::{
    self, AggregateKind, AssertKind, BasicBlock, BinOp, Body, BorrowKind, CastKind, Const, Operand,
    Place, ProjectionElem, Rvalue, StatementKind, TerminatorKind, UnOp,
};
use rustc_middle::ty::print::{PrintTraitRefExt as _, with_resolve_crate_name, with_no_trimmed_paths, with_no_visible_paths};
use rustc_middle::ty::{self, GenericArgsRef, Instance, Ty, TyCtxt, TypingEnv};
use rustc_span::Span;

// ---------------------------------------------------------------------------------------------
// JSON helpers (no serde available to a zero-dependency rustc_private crate)

fn esc(s: &str) -> String {
    let mut o = String::with_capacity(s.len() + 2);
    o.push('"');
    for c in s.chars() {
        match c {
            '"' => o.push_str("\\\""),
            '\\' => o.push_str("\\\\"),
            '\n' => o.push_str("\\n"),
            '\r' => o.push_str("\\r"),
            '\t' => o.push_str("\\t"),
            c if (c as u32) < 0x20 => {
                let _ = write!(o, "\\u{:04x}", c as u32);
            }
            c => o.push(c),
        }
    }
    o.push('"');
    o
}

fn arr(items: &[String]) -> String {
    let mut o = String::from("[");
    for (i, it) in items.iter().enumerate() {
        if i > 0 {
            o.push(',');
        }
        o.push_str(it);
    }
    o.push(']');
    o
}

fn obj(items: &[(&str, String)]) -> String {
    let mut o = String::from("{");
    for (i, (k, v)) in items.iter().enumerate() {
        if i > 0 {
            o.push(',');
        }
        o.push_str(&esc(k));
        o.push(':');
        o.push_str(v);
    }
    o.push('}');
    o
}

// ---------------------------------------------------------------------------------------------

struct Cx<'tcx> {
    tcx: TyCtxt<'tcx>,
}

impl<'tcx> Cx<'tcx> {
    fn path(&self, did: DefId) -> String {
        with_resolve_crate_name!(with_no_visible_paths!(with_no_trimmed_paths!(
            self.tcx.def_path_str(did)
        )))
    }

    fn path_args(&self, did: DefId, args: GenericArgsRef<'tcx>) -> String {
        with_resolve_crate_name!(with_no_visible_paths!(with_no_trimmed_paths!(
            self.tcx.def_path_str_with_args(did, args)
        )))
    }

    fn ty(&self, ty: Ty<'tcx>) -> String {
        with_resolve_crate_name!(with_no_visible_paths!(with_no_trimmed_paths!(ty.to_string())))
    }

    fn span(&self, sp: Span) -> String {
        // use the outermost call site so that macro-generated code points at the user's line
        let sp0 = sp.source_callsite();
        let sm = self.tcx.sess.source_map();
        let lo = sm.lookup_char_pos(sp0.lo());
        let name = match &lo.file.name {
            rustc_span::FileName::Real(r) => match r.local_path() {
                Some(p) => p.display().to_string(),
                None => format!("{:?}", lo.file.name),
            },
            other => format!("{:?}", other),
        };
        format!("{}:{}", name, lo.line)
    }

    fn place_ty_field_name(&self, base: mir::PlaceTy<'tcx>, f: rustc_abi::FieldIdx) -> (String, String) {
        // returns (field name, owner description)
        match base.ty.kind() {
            ty::Adt(adt, _) => {
                let vidx = base.variant_index.unwrap_or(rustc_abi::FIRST_VARIANT);
                let v = adt.variant(vidx);
                let name = if f.as_usize() < v.fields.len() {
                    v.fields[f].name.to_string()
                } else {
                    f.as_usize().to_string()
                };
                let mut owner = self.path(adt.did());
                if adt.is_enum() {
                    owner.push_str("::");
                    owner.push_str(v.name.as_str());
                }
                (name, owner)
            }
            ty::Closure(def, _) | ty::Coroutine(def, _) | ty::CoroutineClosure(def, _) => {
                let caps = self.capture_names(*def);
                let name = caps.get(f.as_usize()).cloned().unwrap_or_else(|| f.as_usize().to_string());
                (name, format!("closure:{}", self.path(*def)))
            }
            ty::Tuple(_) => (f.as_usize().to_string(), "tuple".to_string()),
            _ => (f.as_usize().to_string(), self.ty(base.ty)),
        }
    }

    fn capture_names(&self, def: DefId) -> Vec<String> {
        let Some(ldef) = def.as_local() else { return vec![] };
        self.tcx
            .closure_captures(ldef)
            .iter()
            .map(|c| c.to_symbol().to_string())
            .collect()
    }

    fn place(&self, body: &Body<'tcx>, p: &Place<'tcx>) -> String {
        let mut pt = mir::PlaceTy::from_ty(body.local_decls[p.local].ty);
        let mut projs: Vec<String> = Vec::new();
        for elem in p.projection.iter() {
            let s = match elem {
                ProjectionElem::Deref => arr(&[esc("d")]),
                ProjectionElem::Field(f, _) => {
                    let (n, o) = self.place_ty_field_name(pt, f);
                    arr(&[esc("f"), esc(&n), esc(&o)])
                }
                ProjectionElem::Index(l) => arr(&[esc("i"), l.as_usize().to_string()]),
                ProjectionElem::ConstantIndex { offset, from_end, .. } => {
                    arr(&[esc("ci"), offset.to_string(), from_end.to_string()])
                }
                ProjectionElem::Subslice { from, to, from_end } => {
                    arr(&[esc("sub"), from.to_string(), to.to_string(), from_end.to_string()])
                }
                ProjectionElem::Downcast(name, vidx) => {
                    let n = match name {
                        Some(s) => s.to_string(),
                        None => match pt.ty.kind() {
                            ty::Adt(adt, _) => adt.variant(vidx).name.to_string(),
                            _ => vidx.as_usize().to_string(),
                        },
                    };
                    arr(&[esc("v"), esc(&n)])
                }
                ProjectionElem::OpaqueCast(_) => arr(&[esc("o")]),
                ProjectionElem::UnwrapUnsafeBinder(_) => arr(&[esc("ub")]),
            };
            projs.push(s);
            pt = pt.projection_ty(self.tcx, elem);
        }
        obj(&[("l", p.local.as_usize().to_string()), ("p", arr(&projs))])
    }

    fn constant(&self, owner: LocalDefId, c: &Const<'tcx>) -> String {
        let ty = c.ty();
        let mut items: Vec<(&str, String)> = vec![("ty", esc(&self.ty(ty)))];
        if let ty::FnDef(did, args) = ty.kind() {
            items.push(("fn", esc(&self.path(*did))));
            items.push(("fnargs", esc(&self.path_args(*did, args))));
            return obj(&items);
        }
        let env = TypingEnv::post_analysis(self.tcx, owner.to_def_id());
        // const item reference?
        if let Const::Unevaluated(uv, _) = c {
            items.push(("def", esc(&self.path(uv.def))));
            if uv.promoted.is_some() {
                items.push(("promoted", "true".to_string()));
            }
        }
        let is_scalar_ty = ty.is_integral() || ty.is_bool() || ty.is_char();
        if is_scalar_ty && true {
            if let Some(si) = c.try_eval_scalar_int(self.tcx, env) {
                let size = si.size();
                let v = if ty.is_signed() {
                    si.to_int(size).to_string()
                } else {
                    si.to_uint(size).to_string()
                };
                // emit as string to survive u128
                items.push(("int", esc(&v)));
            }
        }
        let s = with_no_trimmed_paths!(format!("{}", c));
        let s = if s.len() > 400 { format!("{}…", &s[..s.char_indices().nth(380).map(|x| x.0).unwrap_or(s.len())]) } else { s };
        items.push(("s", esc(&s)));
        obj(&items)
    }

    fn operand(&self, owner: LocalDefId, body: &Body<'tcx>, o: &Operand<'tcx>) -> String {
        match o {
            Operand::Copy(p) => obj(&[("c", self.place(body, p))]),
            Operand::Move(p) => obj(&[("m", self.place(body, p))]),
            Operand::Constant(c) => obj(&[("k", self.constant(owner, &c.const_))]),
            other => obj(&[("x", esc(&format!("{:?}", other)))]),
        }
    }

    fn rvalue(&self, owner: LocalDefId, body: &Body<'tcx>, rv: &Rvalue<'tcx>) -> String {
        let op = |o: &Operand<'tcx>| self.operand(owner, body, o);
        match rv {
            Rvalue::Use(o, ..) => obj(&[("k", esc("use")), ("a", op(o))]),
            Rvalue::Repeat(o, n) => obj(&[
                ("k", esc("repeat")),
                ("a", op(o)),
                ("n", esc(&with_no_trimmed_paths!(format!("{}", n)))),
            ]),
            Rvalue::Ref(_, bk, p) => obj(&[
                ("k", esc("ref")),
                ("mut", matches!(bk, BorrowKind::Mut { .. }).to_string()),
                ("fake", matches!(bk, BorrowKind::Fake(_)).to_string()),
                ("pl", self.place(body, p)),
            ]),
            Rvalue::RawPtr(k, p) => obj(&[
                ("k", esc("rawptr")),
                ("mut", esc(&format!("{:?}", k))),
                ("pl", self.place(body, p)),
            ]),
            Rvalue::Cast(ck, o, t) => {
                let ckn = match ck {
                    CastKind::IntToInt => "IntToInt".to_string(),
                    CastKind::FloatToInt => "FloatToInt".to_string(),
                    CastKind::FloatToFloat => "FloatToFloat".to_string(),
                    CastKind::IntToFloat => "IntToFloat".to_string(),
                    CastKind::PtrToPtr => "PtrToPtr".to_string(),
                    CastKind::FnPtrToPtr => "FnPtrToPtr".to_string(),
                    CastKind::Transmute => "Transmute".to_string(),
                    CastKind::PointerCoercion(pc, _) => format!("Coerce:{:?}", pc),
                    other => format!("{:?}", other),
                };
                obj(&[("k", esc("cast")), ("ck", esc(&ckn)), ("a", op(o)), ("ty", esc(&self.ty(*t)))])
            }
            Rvalue::BinaryOp(b, ops) => {
                let (a, c) = &**ops;
                obj(&[("k", esc("bin")), ("op", esc(binop_name(*b))), ("a", op(a)), ("b", op(c))])
            }
            Rvalue::UnaryOp(u, o) => {
                let n = match u {
                    UnOp::Not => "Not",
                    UnOp::Neg => "Neg",
                    UnOp::PtrMetadata => "PtrMetadata",
                };
                obj(&[("k", esc("un")), ("op", esc(n)), ("a", op(o))])
            }
            Rvalue::Discriminant(p) => {
                let pty = p.ty(&body.local_decls, self.tcx).ty;
                let mut it: Vec<(&str, String)> = vec![("k", esc("discr")), ("pl", self.place(body, p)), ("ty", esc(&self.ty(pty)))];
                if let ty::Adt(adt, _) = pty.kind() {
                    it.push(("adt", esc(&self.path(adt.did()))));
                    let vs: Vec<String> = adt
                        .discriminants(self.tcx)
                        .map(|(vidx, d)| arr(&[esc(&d.val.to_string()), esc(adt.variant(vidx).name.as_str())]))
                        .collect();
                    it.push(("variants", arr(&vs)));
                }
                obj(&it)
            }
            Rvalue::CopyForDeref(p) => obj(&[("k", esc("use")), ("a", obj(&[("c", self.place(body, p))]))]),
            Rvalue::Aggregate(kind, ops) => {
                let opsj: Vec<String> = ops.iter().map(|o| op(o)).collect();
                match &**kind {
                    AggregateKind::Array(t) => obj(&[
                        ("k", esc("agg")),
                        ("ak", esc("array")),
                        ("ty", esc(&self.ty(*t))),
                        ("ops", arr(&opsj)),
                    ]),
                    AggregateKind::Tuple => obj(&[("k", esc("agg")), ("ak", esc("tuple")), ("ops", arr(&opsj))]),
                    AggregateKind::Adt(did, vidx, _args, _, active) => {
                        let adt = self.tcx.adt_def(*did);
                        let v = adt.variant(*vidx);
                        let fields: Vec<String> = match active {
                            Some(f) => vec![esc(v.fields[*f].name.as_str())],
                            None => v.fields.iter().map(|f| esc(f.name.as_str())).collect(),
                        };
                        obj(&[
                            ("k", esc("agg")),
                            ("ak", esc("adt")),
                            ("adt", esc(&self.path(*did))),
                            ("variant", esc(v.name.as_str())),
                            ("is_enum", adt.is_enum().to_string()),
                            ("fields", arr(&fields)),
                            ("ops", arr(&opsj)),
                        ])
                    }
                    AggregateKind::Closure(did, _)
                    | AggregateKind::Coroutine(did, _)
                    | AggregateKind::CoroutineClosure(did, _) => {
                        let caps: Vec<String> = self.capture_names(*did).iter().map(|s| esc(s)).collect();
                        obj(&[
                            ("k", esc("agg")),
                            ("ak", esc("closure")),
                            ("def", esc(&self.path(*did))),
                            ("fields", arr(&caps)),
                            ("ops", arr(&opsj)),
                        ])
                    }
                    AggregateKind::RawPtr(..) => {
                        obj(&[("k", esc("agg")), ("ak", esc("rawptr")), ("ops", arr(&opsj))])
                    }
                }
            }
            Rvalue::ThreadLocalRef(d) => obj(&[("k", esc("tls")), ("def", esc(&self.path(*d)))]),
            other => obj(&[("k", esc("other")), ("s", esc(&format!("{:?}", other)))]),
        }
    }

    fn body(&self, owner: LocalDefId, body: &Body<'tcx>, cfg: &str) -> Option<String> {
        let tcx = self.tcx;
        let did = owner.to_def_id();
        let kind = tcx.def_kind(did);
        let env = TypingEnv::post_analysis(tcx, did);

        let mut locals: Vec<String> = Vec::new();
        let mut names: Vec<Option<String>> = vec![None; body.local_decls.len()];
        for vdi in &body.var_debug_info {
            if let mir::VarDebugInfoContents::Place(p) = &vdi.value {
                if p.projection.is_empty() {
                    names[p.local.as_usize()] = Some(vdi.name.to_string());
                }
            }
        }
        for (l, decl) in body.local_decls.iter_enumerated() {
            let mut it: Vec<(&str, String)> = vec![("ty", esc(&self.ty(decl.ty)))];
            if let Some(n) = &names[l.as_usize()] {
                it.push(("name", esc(n)));
            }
            if decl.is_user_variable() {
                it.push(("user", "true".into()));
            }
            locals.push(obj(&it));
        }

        let real = |bb: BasicBlock| -> usize { bb.as_usize() };

        let mut blocks: Vec<String> = Vec::new();
        for (bb, data) in body.basic_blocks.iter_enumerated() {
            let mut stmts: Vec<String> = Vec::new();
            for st in &data.statements {
                match &st.kind {
                    StatementKind::Assign(b) => {
                        let (pl, rv) = &**b;
                        stmts.push(obj(&[
                            ("k", esc("assign")),
                            ("dst", self.place(body, pl)),
                            ("rv", self.rvalue(owner, body, rv)),
                            ("sp", esc(&self.span(st.source_info.span))),
                            ("exp", st.source_info.span.from_expansion().to_string()),
                        ]));
                    }
                    StatementKind::SetDiscriminant { place, variant_index } => {
                        stmts.push(obj(&[
                            ("k", esc("setdiscr")),
                            ("dst", self.place(body, place)),
                            ("v", variant_index.as_usize().to_string()),
                        ]));
                    }
                    StatementKind::StorageDead(l) => {
                        stmts.push(obj(&[("k", esc("dead")), ("l", l.as_usize().to_string())]));
                    }
                    StatementKind::StorageLive(l) => {
                        stmts.push(obj(&[("k", esc("live")), ("l", l.as_usize().to_string())]));
                    }
                    _ => {}
                }
            }
            let term = data.terminator();
            let sp = esc(&self.span(term.source_info.span));
            let exp = term.source_info.span.from_expansion().to_string();
            let t = match &term.kind {
                TerminatorKind::Goto { target } => obj(&[("k", esc("goto")), ("t", real(*target).to_string())]),
                TerminatorKind::FalseEdge { real_target, .. } => {
                    obj(&[("k", esc("goto")), ("t", real(*real_target).to_string())])
                }
                TerminatorKind::FalseUnwind { real_target, .. } => {
                    obj(&[("k", esc("goto")), ("t", real(*real_target).to_string())])
                }
                TerminatorKind::SwitchInt { discr, targets } => {
                    let mut arms: Vec<String> = Vec::new();
                    for (v, t) in targets.iter() {
                        arms.push(arr(&[esc(&v.to_string()), real(t).to_string()]));
                    }
                    let dty = discr.ty(&body.local_decls, tcx);
                    obj(&[
                        ("k", esc("switch")),
                        ("d", self.operand(owner, body, discr)),
                        ("dty", esc(&self.ty(dty))),
                        ("arms", arr(&arms)),
                        ("else", real(targets.otherwise()).to_string()),
                        ("sp", sp),
                        ("exp", exp),
                    ])
                }
                TerminatorKind::Return => obj(&[("k", esc("return")), ("sp", sp)]),
                TerminatorKind::Unreachable => obj(&[("k", esc("unreachable"))]),
                TerminatorKind::UnwindResume | TerminatorKind::UnwindTerminate(_) => {
                    obj(&[("k", esc("unwind"))])
                }
                TerminatorKind::Drop { place, target, .. } => obj(&[
                    ("k", esc("drop")),
                    ("pl", self.place(body, place)),
                    ("t", real(*target).to_string()),
                ]),
                TerminatorKind::Call { func, args, destination, target, .. } => {
                    let mut it: Vec<(&str, String)> = vec![("k", esc("call"))];
                    let fty = func.ty(&body.local_decls, tcx);
                    match fty.kind() {
                        ty::FnDef(cdid, cargs) => {
                            it.push(("callee", esc(&self.path(*cdid))));
                            it.push(("callee_args", esc(&self.path_args(*cdid, cargs))));
                            let gargs: Vec<String> = cargs
                                .iter()
                                .filter_map(|a| a.as_type().map(|t| esc(&self.ty(t))))
                                .collect();
                            it.push(("targs", arr(&gargs)));
                            if let Some(tr) = tcx.trait_of_assoc(*cdid) {
                                it.push(("trait", esc(&self.path(tr))));
                            }
                            // resolve
                            let resolvable = matches!(tcx.def_kind(*cdid), DefKind::Fn | DefKind::AssocFn);
                            if resolvable {
                                match Instance::try_resolve(tcx, env, *cdid, cargs) {
                                    Ok(Some(inst)) => {
                                        it.push(("resolved", esc(&self.path(inst.def_id()))));
                                        let ik = format!("{:?}", inst.def);
                                        let ik = ik.split('(').next().unwrap_or("").to_string();
                                        it.push(("ikind", esc(&ik)));
                                    }
                                    _ => {}
                                }
                            }
                        }
                        _ => {
                            it.push(("callee", esc("<indirect>")));
                            it.push(("fptr", self.operand(owner, body, func)));
                            it.push(("fty", esc(&self.ty(fty))));
                        }
                    }
                    let argsj: Vec<String> = args.iter().map(|a| self.operand(owner, body, &a.node)).collect();
                    it.push(("args", arr(&argsj)));
                    it.push(("dst", self.place(body, destination)));
                    match target {
                        Some(t) => it.push(("t", real(*t).to_string())),
                        None => it.push(("t", "null".into())),
                    }
                    it.push(("sp", sp));
                    it.push(("exp", exp));
                    obj(&it)
                }
                TerminatorKind::TailCall { func, args, .. } => {
                    let argsj: Vec<String> = args.iter().map(|a| self.operand(owner, body, &a.node)).collect();
                    obj(&[
                        ("k", esc("tailcall")),
                        ("fptr", self.operand(owner, body, func)),
                        ("args", arr(&argsj)),
                        ("sp", sp),
                    ])
                }
                TerminatorKind::Assert { cond, expected, msg, target, .. } => {
                    let (ak, aops): (String, Vec<String>) = match &**msg {
                        AssertKind::BoundsCheck { len, index } => (
                            "BoundsCheck".into(),
                            vec![self.operand(owner, body, len), self.operand(owner, body, index)],
                        ),
                        AssertKind::Overflow(op, a, b) => (
                            format!("Overflow:{}", binop_name(*op)),
                            vec![self.operand(owner, body, a), self.operand(owner, body, b)],
                        ),
                        AssertKind::OverflowNeg(a) => ("OverflowNeg".into(), vec![self.operand(owner, body, a)]),
                        AssertKind::DivisionByZero(a) => {
                            ("DivisionByZero".into(), vec![self.operand(owner, body, a)])
                        }
                        AssertKind::RemainderByZero(a) => {
                            ("RemainderByZero".into(), vec![self.operand(owner, body, a)])
                        }
                        other => {
                            let s = format!("{:?}", other);
                            (s.split(|c| c == '(' || c == ' ' || c == '{').next().unwrap_or("").to_string(), vec![])
                        }
                    };
                    obj(&[
                        ("k", esc("assert")),
                        ("ak", esc(&ak)),
                        ("cond", self.operand(owner, body, cond)),
                        ("expected", expected.to_string()),
                        ("ops", arr(&aops)),
                        ("t", real(*target).to_string()),
                        ("sp", sp),
                        ("exp", exp),
                    ])
                }
                TerminatorKind::Yield { value, resume, resume_arg, .. } => obj(&[
                    ("k", esc("yield")),
                    ("a", self.operand(owner, body, value)),
                    ("t", real(*resume).to_string()),
                    ("dst", self.place(body, resume_arg)),
                    ("sp", sp),
                ]),
                TerminatorKind::CoroutineDrop => obj(&[("k", esc("return")), ("cdrop", "true".into())]),
                TerminatorKind::InlineAsm { .. } => obj(&[("k", esc("asm")), ("sp", sp)]),
            };
            blocks.push(obj(&[
                ("id", bb.as_usize().to_string()),
                ("cleanup", data.is_cleanup.to_string()),
                ("stmts", arr(&stmts)),
                ("term", t),
            ]));
        }

        // identity
        let parent = tcx.opt_parent(did).map(|p| self.path(p)).unwrap_or_default();
        let mut it: Vec<(&str, String)> = vec![
            ("rec", esc("body")),
            ("cfg", esc(cfg)),
            ("crate", esc(tcx.crate_name(rustc_hir::def_id::LOCAL_CRATE).as_str())),
            ("def", esc(&self.path(did))),
            ("kind", esc(&format!("{:?}", kind).split(|c| c == ' ' || c == '{' || c == '(').next().unwrap_or("").to_string())),
            ("parent", esc(&parent)),
            ("span", esc(&self.span(tcx.def_span(did)))),
            ("macro_generated", tcx.def_span(did).from_expansion().to_string()),
            ("argc", body.arg_count.to_string()),
        ];
        // typeck root for closures
        let root = tcx.typeck_root_def_id(did);
        if root != did {
            it.push(("root", esc(&self.path(root))));
        }
        if matches!(kind, DefKind::Fn | DefKind::AssocFn) {
            it.push(("vis", esc(&format!("{:?}", tcx.visibility(did)).split('(').next().unwrap_or("").to_string())));
            let sig = tcx.fn_sig(did).instantiate_identity().skip_norm_wip();
            it.push(("sig", esc(&with_resolve_crate_name!(with_no_visible_paths!(with_no_trimmed_paths!(format!("{}", sig)))))));
            it.push(("unsafe_fn", (!sig.safety().is_safe()).to_string()));
            it.push(("asyncness", tcx.asyncness(did).is_async().to_string()));
            // impl info
            if let Some(impl_did) = tcx.impl_of_assoc(did) {
                it.push(("impl_self", esc(&self.ty(tcx.type_of(impl_did).instantiate_identity().skip_norm_wip()))));
                if let Some(tr) = tcx.impl_opt_trait_ref(impl_did) {
                    let tr = tr.instantiate_identity().skip_norm_wip();
                    it.push(("impl_trait", esc(&self.path(tr.def_id))));
                }
                if tcx.is_automatically_derived(impl_did) {
                    it.push(("derived", "true".into()));
                }
            }
            if let Some(tr) = tcx.trait_of_assoc(did) {
                it.push(("trait_default", esc(&self.path(tr))));
            }
        }
        if matches!(kind, DefKind::Closure) {
            let caps: Vec<String> = self.capture_names(did).iter().map(|s| esc(s)).collect();
            it.push(("captures", arr(&caps)));
            it.push(("coroutine", tcx.is_coroutine(did).to_string()));
        }
        it.push(("unsafe_blocks", self.unsafe_blocks(owner).to_string()));
        it.push(("locals", arr(&locals)));
        it.push(("blocks", arr(&blocks)));
        Some(obj(&it))
    }

    fn unsafe_blocks(&self, owner: LocalDefId) -> usize {
        use rustc_hir::intravisit::{self, Visitor};
        struct V {
            n: usize,
        }
        impl<'v> Visitor<'v> for V {
            fn visit_block(&mut self, b: &'v rustc_hir::Block<'v>) {
                if let rustc_hir::BlockCheckMode::UnsafeBlock(rustc_hir::UnsafeSource::UserProvided) = b.rules {
                    if !b.span.from_expansion() {
                        self.n += 1;
                    } else {
                        self.n += 1000000; // macro-generated unsafe, distinguishable
                    }
                }
                intravisit::walk_block(self, b);
            }
        }
        let Some(body) = self.tcx.hir_maybe_body_owned_by(owner) else { return 0 };
        let mut v = V { n: 0 };
        v.visit_expr(body.value);
        v.n
    }

    fn adts_impls_consts(&self, cfg: &str, out: &mut Vec<String>) {
        let tcx = self.tcx;
        let items = tcx.hir_crate_items(());
        let krate = tcx.crate_name(rustc_hir::def_id::LOCAL_CRATE).to_string();
        for ldid in items.definitions() {
            let did = ldid.to_def_id();
            match tcx.def_kind(did) {
                DefKind::Struct | DefKind::Enum | DefKind::Union => {
                    let adt = tcx.adt_def(did);
                    let mut vars: Vec<String> = Vec::new();
                    for v in adt.variants() {
                        let mut fs: Vec<String> = Vec::new();
                        for f in &v.fields {
                            let fty = tcx.type_of(f.did).instantiate_identity().skip_norm_wip();
                            fs.push(obj(&[
                                ("name", esc(f.name.as_str())),
                                ("ty", esc(&self.ty(fty))),
                                ("vis", esc(&format!("{:?}", f.vis).split('(').next().unwrap_or("").to_string())),
                            ]));
                        }
                        vars.push(obj(&[("name", esc(v.name.as_str())), ("fields", arr(&fs))]));
                    }
                    let generics = tcx.generics_of(did);
                    let mut it: Vec<(&str, String)> = vec![
                        ("rec", esc("adt")),
                        ("cfg", esc(cfg)),
                        ("crate", esc(&krate)),
                        ("def", esc(&self.path(did))),
                        ("is_enum", adt.is_enum().to_string()),
                        ("variants", arr(&vars)),
                        ("span", esc(&self.span(tcx.def_span(did)))),
                        ("vis", esc(&format!("{:?}", tcx.visibility(did)).split('(').next().unwrap_or("").to_string())),
                        ("ngenerics", generics.own_params.len().to_string()),
                    ];
                    let only_lifetimes = generics.own_params.iter().all(|p| matches!(p.kind, ty::GenericParamDefKind::Lifetime));
                    if only_lifetimes {
                        let t = tcx.type_of(did).instantiate_identity().skip_norm_wip();
                        let env = TypingEnv::post_analysis(tcx, did);
                        it.push(("freeze", t.is_freeze(tcx, env).to_string()));
                    }
                    out.push(obj(&it));
                }
                DefKind::Impl { .. } => {
                    let self_ty = tcx.type_of(did).instantiate_identity().skip_norm_wip();
                    let mut it: Vec<(&str, String)> = vec![
                        ("rec", esc("impl")),
                        ("cfg", esc(cfg)),
                        ("crate", esc(&krate)),
                        ("def", esc(&self.path(did))),
                        ("self", esc(&self.ty(self_ty))),
                        ("span", esc(&self.span(tcx.def_span(did)))),
                        ("derived", tcx.is_automatically_derived(did).to_string()),
                        ("macro_generated", tcx.def_span(did).from_expansion().to_string()),
                    ];
                    if let ty::Adt(a, _) = self_ty.kind() {
                        it.push(("self_adt", esc(&self.path(a.did()))));
                    }
                    if let Some(tr) = tcx.impl_opt_trait_ref(did) {
                        let tr = tr.instantiate_identity().skip_norm_wip();
                        it.push(("trait", esc(&self.path(tr.def_id))));
                        it.push(("trait_ref", esc(&with_resolve_crate_name!(with_no_visible_paths!(with_no_trimmed_paths!(format!("{}", tr.print_only_trait_path())))))));
                    }
                    let mut ms: Vec<String> = Vec::new();
                    for ai in tcx.associated_items(did).in_definition_order() {
                        let mut m: Vec<(&str, String)> = vec![
                            ("name", esc(&ai.opt_name().map(|n| n.to_string()).unwrap_or_default())),
                            ("def", esc(&self.path(ai.def_id))),
                            ("kind", esc(&format!("{:?}", ai.kind).split(|c| c == ' ' || c == '{' || c == '(').next().unwrap_or("").to_string())),
                        ];
                        if let Some(t) = ai.trait_item_def_id() {
                            m.push(("of", esc(&self.path(t))));
                        }
                        ms.push(obj(&m));
                    }
                    it.push(("items", arr(&ms)));
                    out.push(obj(&it));
                }
                DefKind::Static { .. } => {
                    // process-wide state: name and type of every `static` (incl. the ones thread_local! / LazyLock hide behind)
                    let ty = tcx.type_of(did).instantiate_identity().skip_norm_wip();
                    let it: Vec<(&str, String)> = vec![
                        ("rec", esc("static")),
                        ("cfg", esc(cfg)),
                        ("crate", esc(&krate)),
                        ("def", esc(&self.path(did))),
                        ("ty", esc(&self.ty(ty))),
                        ("span", esc(&self.span(tcx.def_span(did)))),
                    ];
                    out.push(obj(&it));
                }
                DefKind::Const { .. } | DefKind::AssocConst { .. } => {
                    let generics = tcx.generics_of(did);
                    if generics.count() != 0 {
                        continue;
                    }
                    // skip trait-declared consts without default
                    if tcx.trait_of_assoc(did).is_some() {
                        continue;
                    }
                    let ty = tcx.type_of(did).instantiate_identity().skip_norm_wip();
                    let mut it: Vec<(&str, String)> = vec![
                        ("rec", esc("const")),
                        ("cfg", esc(cfg)),
                        ("crate", esc(&krate)),
                        ("def", esc(&self.path(did))),
                        ("ty", esc(&self.ty(ty))),
                        ("span", esc(&self.span(tcx.def_span(did)))),
                    ];
                    if let Some(impl_did) = tcx.impl_of_assoc(did) {
                        it.push(("impl_self", esc(&self.ty(tcx.type_of(impl_did).instantiate_identity().skip_norm_wip()))));
                        if let Some(tr) = tcx.impl_opt_trait_ref(impl_did) {
                            let tr = tr.instantiate_identity().skip_norm_wip();
                            it.push(("impl_trait", esc(&self.path(tr.def_id))));
                        }
                    }
                    if let Ok(val) = tcx.const_eval_poly(did) {
                        let c = Const::Val(val, ty);
                        let s = with_no_trimmed_paths!(format!("{}", c));
                        it.push(("s", esc(&s)));
                        let env = TypingEnv::post_analysis(tcx, did);
                        if ty.is_integral() || ty.is_bool() || ty.is_char() {
                            if let Some(si) = c.try_eval_scalar_int(tcx, env) {
                                let v = if ty.is_signed() {
                                    si.to_int(si.size()).to_string()
                                } else {
                                    si.to_uint(si.size()).to_string()
                                };
                                it.push(("int", esc(&v)));
                            }
                        }
                        // raw bytes for arrays of u8 / arrays of arrays of u8 (EMPTY_ROOTS, labels)
                        if let Some(bytes) = self.const_bytes(val, ty) {
                            let mut hx = String::with_capacity(bytes.len() * 2);
                            for b in bytes {
                                let _ = write!(hx, "{:02x}", b);
                            }
                            it.push(("hex", esc(&hx)));
                        }
                    }
                    out.push(obj(&it));
                }
                _ => {}
            }
        }
    }

    fn const_bytes(&self, val: mir::ConstValue, _ty: Ty<'tcx>) -> Option<Vec<u8>> {
        // raw bytes of memory-backed constants without pointers (labels, EMPTY_ROOTS, ...)
        match val {
            mir::ConstValue::Indirect { alloc_id, offset } => {
                let alloc = self.tcx.global_alloc(alloc_id).unwrap_memory();
                let a = alloc.inner();
                if !a.provenance().ptrs().is_empty() {
                    return None;
                }
                let start = offset.bytes_usize();
                if a.len() < start || a.len() - start > 8192 {
                    return None;
                }
                Some(a.inspect_with_uninit_and_ptr_outside_interpreter(start..a.len()).to_vec())
            }
            _ => None,
        }
    }
}

fn binop_name(b: BinOp) -> &'static str {
    match b {
        BinOp::Add => "Add",
        BinOp::AddUnchecked => "AddUnchecked",
        BinOp::AddWithOverflow => "AddWithOverflow",
        BinOp::Sub => "Sub",
        BinOp::SubUnchecked => "SubUnchecked",
        BinOp::SubWithOverflow => "SubWithOverflow",
        BinOp::Mul => "Mul",
        BinOp::MulUnchecked => "MulUnchecked",
        BinOp::MulWithOverflow => "MulWithOverflow",
        BinOp::Div => "Div",
        BinOp::Rem => "Rem",
        BinOp::BitXor => "BitXor",
        BinOp::BitAnd => "BitAnd",
        BinOp::BitOr => "BitOr",
        BinOp::Shl => "Shl",
        BinOp::ShlUnchecked => "ShlUnchecked",
        BinOp::Shr => "Shr",
        BinOp::ShrUnchecked => "ShrUnchecked",
        BinOp::Eq => "Eq",
        BinOp::Lt => "Lt",
        BinOp::Le => "Le",
        BinOp::Ne => "Ne",
        BinOp::Ge => "Ge",
        BinOp::Gt => "Gt",
        BinOp::Cmp => "Cmp",
        BinOp::Offset => "Offset",
    }
}

struct Dump {
    cfg: String,
    dir: String,
}

impl Callbacks for Dump {
    fn after_expansion<'tcx>(&mut self, _c: &Compiler, tcx: TyCtxt<'tcx>) -> Compilation {
        let cx = Cx { tcx };
        let krate = tcx.crate_name(rustc_hir::def_id::LOCAL_CRATE).to_string();
        let mut out: Vec<String> = Vec::new();
        let mut nbodies = 0usize;
        // Phase 1: clone every mir_built body before any query that could steal it
        // (opaque-type inference, const-eval and instance resolution may run borrowck).
        let mut bodies: Vec<(LocalDefId, Body<'tcx>)> = Vec::new();
        for owner in tcx.hir_body_owners() {
            let kind = tcx.def_kind(owner.to_def_id());
            // skip anon/inline consts and statics' initialisers: not rule subjects, and some ICE on queries
            if !matches!(kind, DefKind::Fn | DefKind::AssocFn | DefKind::Closure) {
                continue;
            }
            let b = tcx.mir_built(owner).borrow().clone();
            bodies.push((owner, b));
        }
        for (owner, b) in &bodies {
            let owner = *owner;
            if let Some(s) = cx.body(owner, b, &self.cfg) {
                out.push(s);
                nbodies += 1;
            }
        }
        cx.adts_impls_consts(&self.cfg, &mut out);
        let is_test = tcx.sess.is_test_crate();
        out.push(obj(&[
            ("rec", esc("crate")),
            ("cfg", esc(&self.cfg)),
            ("crate", esc(&krate)),
            ("bodies", nbodies.to_string()),
            ("test_harness", is_test.to_string()),
            ("rustc", esc(&option_env!("CFG_VERSION").unwrap_or("unknown").to_string())),
            ("nonce", esc(&std::env::var("AGL_FACTS_NONCE").unwrap_or_default())),
        ]));
        let kind = if is_test { "test" } else { "plain" };
        let file = format!("{}/{}.{}.{}.jsonl", self.dir, krate, kind, std::process::id());
        let mut s = String::new();
        for l in out {
            s.push_str(&l);
            s.push('\n');
        }
        std::fs::write(&file, s).expect("agl-facts: cannot write fact file");
        Compilation::Continue
    }
}

struct Nop;
impl Callbacks for Nop {}

fn main() {
    let mut args: Vec<String> = std::env::args().collect();
    // RUSTC_WORKSPACE_WRAPPER: argv[1] is the path of the real rustc; drop it.
    if args.len() > 1 && (args[1].ends_with("rustc") || args[1].contains("/rustc")) {
        args.remove(1);
    }
    let crate_name = args
        .iter()
        .position(|a| a == "--crate-name")
        .and_then(|i| args.get(i + 1))
        .cloned()
        .unwrap_or_default();
    let wanted = std::env::var("AGL_FACTS_CRATES").unwrap_or_else(|_| "alpenglow,agl_fixtures".to_string());
    let dir = std::env::var("AGL_FACTS_DIR").ok();
    let is_print = args.iter().any(|a| a.starts_with("--print") || a == "-vV" || a == "-V");
    let dump = dir.is_some() && !is_print && wanted.split(',').any(|w| w == crate_name);
    if dump {
        let mut cb = Dump { cfg: std::env::var("AGL_FACTS_CFG").unwrap_or_else(|_| "default".into()), dir: dir.unwrap() };
        rustc_driver::run_compiler(&args, &mut cb);
    } else {
        rustc_driver::run_compiler(&args, &mut Nop);
    }
}
