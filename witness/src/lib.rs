//! Type-level witnesses (compile_fail doctests with compiling twins) for the validate-then-use and
//! fork-isolation disciplines. Run with `cargo +nightly test --doc` (error codes are honoured on nightly only).
//! Each `*_fails` item must fail with exactly the stated error code; its `*_twin` differs only in the offending
//! line and must compile, which shows that the paths and the rest of the snippet are right.

/// O9.1: a `ValidatedVote` cannot be constructed outside its module (private field).
/// ```compile_fail,E0451
/// fn f(v: alpenglow::consensus::Vote) -> alpenglow::consensus::ValidatedVote {
///     alpenglow::consensus::ValidatedVote { vote: v }
/// }
/// ```
pub struct ValidatedVoteLiteralFails;

/// twin: going through the validator compiles
/// ```
/// fn f(v: alpenglow::consensus::Vote, e: &alpenglow::consensus::EpochInfo) -> Option<alpenglow::consensus::ValidatedVote> {
///     alpenglow::consensus::ValidatedVote::try_new(v, e).ok()
/// }
/// ```
pub struct ValidatedVoteLiteralTwin;

/// O9.1: a `ValidatedCert` cannot be constructed outside its module.
/// ```compile_fail,E0451
/// fn f(c: alpenglow::consensus::Cert) -> alpenglow::consensus::ValidatedCert {
///     alpenglow::consensus::ValidatedCert { cert: c }
/// }
/// ```
pub struct ValidatedCertLiteralFails;

/// ```
/// fn f(c: alpenglow::consensus::Cert, e: &alpenglow::consensus::EpochInfo) -> Option<alpenglow::consensus::ValidatedCert> {
///     alpenglow::consensus::ValidatedCert::try_new(c, e).ok()
/// }
/// ```
pub struct ValidatedCertLiteralTwin;

/// O9.1 / O12: a `ValidatedShred` cannot be constructed outside its module.
/// ```compile_fail,E0451
/// fn f(s: alpenglow::shredder::Shred, r: alpenglow::crypto::merkle::SliceRoot) -> alpenglow::shredder::ValidatedShred {
///     alpenglow::shredder::ValidatedShred { shred: s, slice_root: r }
/// }
/// ```
pub struct ValidatedShredLiteralFails;

/// ```
/// fn f(s: alpenglow::shredder::Shred, pk: &alpenglow::crypto::signature::PublicKey) -> Option<alpenglow::shredder::ValidatedShred> {
///     alpenglow::shredder::ValidatedShred::try_new(s, None, pk).ok()
/// }
/// ```
pub struct ValidatedShredLiteralTwin;

/// O9.1: the trusted constructor for regenerated shreds is not reachable from outside the shredder.
/// ```compile_fail,E0624
/// fn f(s: alpenglow::shredder::Shred, r: alpenglow::crypto::merkle::SliceRoot) -> alpenglow::shredder::ValidatedShred {
///     alpenglow::shredder::ValidatedShred::new_validated(s, r)
/// }
/// ```
pub struct NewValidatedPrivateFails;

/// O10.2: `Pool::add_vote` does not take a raw `Vote`.
/// ```compile_fail,E0308
/// async fn f(p: &mut alpenglow::consensus::PoolImpl, v: alpenglow::consensus::Vote) {
///     use alpenglow::consensus::Pool;
///     let _ = p.add_vote(v).await;
/// }
/// ```
pub struct AddVoteRawFails;

/// ```
/// async fn f(p: &mut alpenglow::consensus::PoolImpl, v: alpenglow::consensus::ValidatedVote) {
///     use alpenglow::consensus::Pool;
///     let _ = p.add_vote(v).await;
/// }
/// ```
pub struct AddVoteRawTwin;

/// O10.2: `Pool::add_cert` does not take a raw `Cert`.
/// ```compile_fail,E0308
/// async fn f(p: &mut alpenglow::consensus::PoolImpl, c: alpenglow::consensus::Cert) {
///     use alpenglow::consensus::Pool;
///     let _ = p.add_cert(c).await;
/// }
/// ```
pub struct AddCertRawFails;

/// ```
/// async fn f(p: &mut alpenglow::consensus::PoolImpl, c: alpenglow::consensus::ValidatedCert) {
///     use alpenglow::consensus::Pool;
///     let _ = p.add_cert(c).await;
/// }
/// ```
pub struct AddCertRawTwin;

/// O20.1: a shared (forked-from) `State` cannot be written through a shared reference.
/// ```compile_fail,E0596
/// fn f(s: &alpenglow::execution::State) {
///     s.insert([0u8; 32], vec![1]);
/// }
/// ```
pub struct StateSharedWriteFails;

/// ```
/// fn f(s: &mut alpenglow::execution::State) {
///     s.insert([0u8; 32], vec![1]);
/// }
/// ```
pub struct StateSharedWriteTwin;

/// O20.1: a fork is an independent value: writing the fork does not need (and cannot get) access to the original.
/// ```
/// fn f(s: &alpenglow::execution::State) -> alpenglow::execution::State {
///     let mut fork = s.clone();
///     fork.insert([0u8; 32], vec![1]);
///     fork
/// }
/// ```
pub struct ForkIsAValueTwin;

/// O9.5: the declared stake of a certificate is not a public field a consumer could start trusting.
/// ```compile_fail,E0616
/// fn f(c: &alpenglow::consensus::NotarCert) -> alpenglow::Stake {
///     c.stake
/// }
/// ```
pub struct CertStakeFieldPrivateFails;
