//! Positive / negative examples for the detectors of the agl-static engine.
//! Every `*_bad` item must make its detector fire on every run, every `*_ok` twin must stay silent;
//! otherwise the checker reports itself broken (exit 2). Nothing here is ever executed.
#![allow(dead_code, clippy::all)]

use std::collections::{BTreeMap, HashMap};
use std::sync::{Mutex, RwLock};

pub struct St {
    pub votes: Vec<Option<u32>>,
    pub total: u64,
    pub flag: bool,
    pub done: bool,
    pub status: BTreeMap<u64, Status>,
}

#[derive(Clone, Copy, PartialEq, Eq)]
pub enum Status {
    Pending,
    Seen,
    Decided,
}

// ------------------------------------------------------------------ guards with polarity (edge dominance)
pub fn act(_x: u32) {}

pub fn guard_ok(s: &St, x: u32) {
    if !s.flag && s.votes[0].is_none() && x < 10 {
        act(x);
    }
}

/// `flag` is no longer part of the guard
pub fn guard_bad_dropped(s: &St, x: u32) {
    if s.votes[0].is_none() && x < 10 {
        act(x);
    }
}

/// disjunction instead of conjunction: no single edge dominates the action
pub fn guard_bad_or(s: &St, x: u32) {
    if !s.flag || x < 10 {
        act(x);
    }
}

/// inverted polarity
pub fn guard_bad_polarity(s: &St, x: u32) {
    if s.flag && x < 10 {
        act(x);
    }
}

/// same check spelled with early return / let-else: must be recognised as the same guard
pub fn guard_ok_early_return(s: &St, x: u32) {
    if s.flag {
        return;
    }
    let None = s.votes[0] else { return };
    if x >= 10 {
        return;
    }
    act(x);
}

// ------------------------------------------------------------------ matches!-lowered guards
pub enum Ev {
    A(u32),
    B,
    C,
}

pub fn matches_ok(e: &Ev) {
    if matches!(e, Ev::A(_)) {
        act(1);
    }
}

pub fn matches_bad(e: &Ev) {
    if matches!(e, Ev::A(_) | Ev::B) {
        act(1);
    }
}

// ------------------------------------------------------------------ always followed by
pub fn follow_ok(s: &mut St, x: u32) {
    act(x);
    if x > 3 {
        s.done = true;
        return;
    }
    s.done = true;
}

pub fn follow_bad(s: &mut St, x: u32) {
    act(x);
    if x > 3 {
        return; // exit without setting `done`
    }
    s.done = true;
}

// ------------------------------------------------------------------ store before aggregate
pub fn count(s: &St) -> usize {
    s.votes.iter().flatten().count()
}

pub fn store_then_count_ok(s: &mut St, i: usize, v: u32) -> usize {
    s.votes[i] = Some(v);
    count(s)
}

pub fn count_then_store_bad(s: &mut St, i: usize, v: u32) -> usize {
    let n = count(s);
    s.votes[i] = Some(v);
    n
}

// ------------------------------------------------------------------ decided status never downgraded
pub fn downgrade_bad(s: &mut St, k: u64) {
    let old = s.status.insert(k, Status::Seen);
    if let Some(Status::Decided) = old {
        // forgot to restore
    }
}

pub fn downgrade_ok(s: &mut St, k: u64) {
    let old = s.status.insert(k, Status::Seen);
    if let Some(st @ Status::Decided) = old {
        s.status.insert(k, st);
    }
}

// ------------------------------------------------------------------ ambient nondeterminism
pub fn ambient_bad() -> u64 {
    std::time::Instant::now().elapsed().as_nanos() as u64
}

pub fn ambient_bad_hash_order(m: &HashMap<u32, u32>) -> u32 {
    let mut acc = 0;
    for (k, _) in m.iter() {
        acc = acc * 31 + k;
    }
    acc
}

pub fn ambient_bad_env() -> bool {
    std::env::var("X").is_ok()
}

pub fn ambient_via_callee_bad() -> u64 {
    ambient_bad() + 1
}

pub fn ambient_ok(seed: u64) -> u64 {
    seed.wrapping_mul(6364136223846793005).wrapping_add(1)
}

// ------------------------------------------------------------------ panic sites
pub fn panic_sites_bad(v: &[u32], i: usize, o: Option<u32>, d: u32) -> u32 {
    let a = v[i];
    let b = o.unwrap();
    let c = a / d;
    assert!(c < 7, "too big");
    b + c
}

pub fn panic_sites_ok(v: &[u32], i: usize, o: Option<u32>, d: u32) -> Option<u32> {
    let a = *v.get(i)?;
    let b = o?;
    let c = a.checked_div(d)?;
    b.checked_add(c)
}

pub fn const_index_ok(v: &[u32; 8]) -> u32 {
    v[3] + v[7] / 4
}

// ------------------------------------------------------------------ lock order
pub struct Locks {
    pub pool: RwLock<u32>,
    pub store: RwLock<u32>,
    pub other: Mutex<u32>,
}

pub fn lock_ab(l: &Locks) -> u32 {
    let a = l.pool.write().unwrap();
    let b = l.store.write().unwrap();
    *a + *b
}

pub fn lock_ba_bad(l: &Locks) -> u32 {
    let b = l.store.write().unwrap();
    let a = l.pool.write().unwrap();
    *a + *b
}

pub fn lock_sequential_ok(l: &Locks) -> u32 {
    let x = {
        let b = l.store.write().unwrap();
        *b
    };
    let a = l.pool.write().unwrap();
    drop(a);
    let c = l.other.lock().unwrap();
    x + *c
}

// ------------------------------------------------------------------ decision tables / truth tables
pub fn both(a: bool, b: bool) -> bool {
    a && b
}

pub fn either(a: bool, b: bool) -> bool {
    a || b
}

pub fn classify(k: &Ev, stored: Option<u32>) -> Option<u8> {
    match k {
        Ev::A(x) => {
            if let Some(s) = stored
                && *x != s
            {
                return Some(1);
            }
            None
        }
        Ev::B => stored.is_some().then_some(2),
        Ev::C => None,
    }
}

// ------------------------------------------------------------------ interval normal form
pub fn need_32_ok(n: usize) -> Result<(), ()> {
    if n < 32 {
        return Err(());
    }
    act(0);
    Ok(())
}

pub fn need_32_ok_other_spelling(n: usize) -> Result<(), ()> {
    if !(n >= 32) {
        return Err(());
    }
    act(0);
    Ok(())
}

pub fn need_32_bad_off_by_one(n: usize) -> Result<(), ()> {
    if n <= 30 {
        return Err(());
    }
    act(0);
    Ok(())
}

// ------------------------------------------------------------------ provenance
pub struct Key(pub u64);
pub struct Me {
    pub key: Key,
    pub other: Key,
    pub idx: u32,
}
pub fn sign(_k: &Key, _i: u32) {}

pub fn provenance_ok(m: &Me) {
    sign(&m.key, m.idx);
}

pub fn provenance_bad(m: &Me) {
    sign(&m.other, m.idx);
}

// ------------------------------------------------------------------ field coverage
pub struct Hdr {
    pub a: u64,
    pub b: u64,
    pub c: bool,
}

pub fn cover_all_ok(h: &Hdr) -> [u8; 17] {
    let mut buf = [0u8; 17];
    buf[0..8].copy_from_slice(&h.a.to_le_bytes());
    buf[8..16].copy_from_slice(&h.b.to_le_bytes());
    buf[16] = u8::from(h.c);
    buf
}

pub fn cover_missing_bad(h: &Hdr) -> [u8; 17] {
    let mut buf = [0u8; 17];
    buf[0..8].copy_from_slice(&h.a.to_le_bytes());
    buf[16] = u8::from(h.c);
    buf
}

// ------------------------------------------------------------------ index-domain exactness (proof walkers)
pub mod walk {
    fn mix(a: u64, b: u64) -> u64 {
        a.wrapping_mul(31).wrapping_add(b)
    }

    /// residual checked after the loop: accepts exactly index < 2^len
    pub fn walk_residual_ok(hash: u64, index: usize, proof: &[u64]) -> Option<u64> {
        let mut i = index;
        let mut node = hash;
        for h in proof.iter() {
            node = if i % 2 == 0 { mix(node, *h) } else { mix(*h, node) };
            i /= 2;
        }
        if i != 0 {
            return None;
        }
        Some(node)
    }

    /// width checked up front, other spelling: accepts exactly index < 2^len
    pub fn walk_width_ok(hash: u64, index: usize, proof: &[u64]) -> Option<u64> {
        if index >= 1_usize << proof.len() {
            return None;
        }
        let mut i = index;
        let mut node = hash;
        for h in proof.iter() {
            node = if i % 2 == 0 { mix(node, *h) } else { mix(*h, node) };
            i /= 2;
        }
        Some(node)
    }

    /// off by one: index == 2^len is accepted
    pub fn walk_width_bad_off_by_one(hash: u64, index: usize, proof: &[u64]) -> Option<u64> {
        if index > 1_usize << proof.len() {
            return None;
        }
        let mut i = index;
        let mut node = hash;
        for h in proof.iter() {
            node = if i % 2 == 0 { mix(node, *h) } else { mix(*h, node) };
            i /= 2;
        }
        Some(node)
    }

    /// too strict: the last valid index is rejected
    pub fn walk_width_bad_too_strict(hash: u64, index: usize, proof: &[u64]) -> Option<u64> {
        if index + 1 >= 1_usize << proof.len() {
            return None;
        }
        let mut i = index;
        let mut node = hash;
        for h in proof.iter() {
            node = if i % 2 == 0 { mix(node, *h) } else { mix(*h, node) };
            i /= 2;
        }
        Some(node)
    }
}

// ------------------------------------------------------------------ exact guard set / mutation map
/// only the recognised condition (flag is false) guards the action
pub fn exact_guard_ok(s: &St, xs: &[u32]) {
    for x in xs {
        if s.flag {
            continue;
        }
        act(*x);
    }
}

/// one more condition silently filters the action
pub fn exact_guard_bad_extra(s: &St, xs: &[u32]) {
    for x in xs {
        if s.flag {
            continue;
        }
        if *x as f64 * 0.5 <= 1.0 {
            continue;
        }
        act(*x);
    }
}

pub struct Mm {
    pub seen: BTreeMap<u64, u32>,
    pub n: u64,
}

pub fn mm_insert(m: &mut Mm) {
    m.seen.insert(1, 2);
    m.n = 3;
}

pub fn mm_remove(m: &mut Mm) {
    m.seen.remove(&1);
}

pub struct Ctr {
    pub hits: u64,
    pub misses: u32,
}

/// a counter that is only ever updated (statistics): no read reaches a decision
pub fn ctr_stat_only(c: &mut Ctr, x: u32) {
    c.hits += 1;
    c.hits = c.hits.wrapping_add(2);
    c.misses = c.misses.saturating_add(1);
    act(x);
}

/// the counter's value reaches a branch: it carries logic
pub fn ctr_bad_logic(c: &mut Ctr, x: u32) {
    c.hits += 1;
    if c.hits > 64 {
        return;
    }
    act(x);
}

/// the counter's value is handed to a function: it may carry logic
pub fn ctr_bad_passed(c: &mut Ctr) {
    c.misses = c.misses.saturating_add(1);
    act(c.misses);
}

/// guard spelled through a bool local with one computed and one constant arm
pub fn guard_ok_via_bool_local(s: &St, x: u32) {
    let free = match s.votes.first() {
        Some(v) => v.is_none(),
        None => false,
    };
    if free && !s.flag && x < 10 {
        act(x);
    }
}

pub fn ambient_bad_random_state(v: &[u64]) -> u64 {
    use std::hash::BuildHasher;
    std::hash::RandomState::new().hash_one(v)
}

// ------------------------------------------------------------------ guards living in the caller of a private helper
fn helper_act(_s: &St, x: u32) {
    act(x);
}

/// the guard is in the (only) caller: accepted for a crate-private helper
pub fn caller_guard_ok(s: &St, x: u32) {
    if !s.flag && x < 10 {
        helper_act(s, x);
    }
}

fn helper_act2(_s: &St, x: u32) {
    act(x);
}

/// one of two callers does not test the flag: the guard does not hold at every call site
pub fn caller_guard_bad_a(s: &St, x: u32) {
    if !s.flag {
        helper_act2(s, x);
    }
}
pub fn caller_guard_bad_b(s: &St, x: u32) {
    helper_act2(s, x);
}

// ------------------------------------------------------------------ virtual inlining of new private helpers
fn inl_helper(_s: &St, x: u32) -> u32 {
    act(x);
    x + 1
}

/// guard in the caller, action in a (new) private helper: after inlining the action is seen under the guard
pub fn inl_caller(s: &St, x: u32) -> u32 {
    if !s.flag && x < 10 {
        return inl_helper(s, x);
    }
    0
}

fn inl_pred(s: &St, x: u32) -> bool {
    if s.done {
        s.votes[0].is_none()
    } else {
        !s.flag && x < 10
    }
}

/// condition in a (new) private predicate helper with one result expression per branch
pub fn inl_pred_caller(s: &St, x: u32) {
    if inl_pred(s, x) {
        act(x);
    }
}

async fn inl_async_helper(_s: &St, x: u32) {
    act(x);
}

/// the same with an `async fn` helper awaited under the guard
pub async fn inl_async_caller(s: &St, x: u32) {
    if !s.flag {
        inl_async_helper(s, x).await;
    }
}

// ------------------------------------------------------------------ lossy casts
pub fn cast_bad_len(v: &[u8]) -> u16 {
    v.len() as u16
}

pub fn cast_ok_masked(x: usize) -> u8 {
    (x & 0x1f) as u8
}

pub fn cast_ok_mod(x: u64) -> u16 {
    (x % 1000) as u16
}

pub fn cast_ok_guarded(x: usize) -> Option<u8> {
    if x < 200 { Some(x as u8) } else { None }
}

// ------------------------------------------------------------------ loops that must run to exhaustion
pub struct Sink {
    pub sent: Vec<u32>,
}

impl Sink {
    pub fn send(&mut self, x: u32) {
        self.sent.push(x);
    }
}

/// every element is handed to the sink: fine
pub fn loop_ok_all(s: &mut Sink, xs: &[Option<u32>]) {
    for x in xs {
        let Some(v) = x else {
            continue;
        };
        s.send(*v);
    }
}

/// leaves at the first element that has nothing to send: the rest is never visited
pub fn loop_bad_early_return(s: &mut Sink, xs: &[Option<u32>]) {
    for x in xs {
        let Some(v) = x else {
            return;
        };
        s.send(*v);
    }
}

/// a pure search loop may return early
pub fn loop_ok_search(xs: &[u32], y: u32) -> bool {
    for x in xs {
        if *x == y {
            return true;
        }
    }
    false
}

/// `loop { if done { break } .. }`: the single exit is the loop condition
pub fn loop_ok_single_exit(s: &mut Sink, mut n: u32) {
    loop {
        if n == 0 {
            break;
        }
        s.send(n);
        n -= 1;
    }
}

/// a buffer filled in place: its contents come from `a` and `b`
pub fn inplace_fill(a: u64, b: u64) -> [u8; 16] {
    let mut buf = [0u8; 16];
    buf[..8].copy_from_slice(&a.to_be_bytes());
    buf[8..].copy_from_slice(&b.to_be_bytes());
    buf
}
